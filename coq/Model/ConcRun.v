(* Model.ConcRun: the generated lock table (Gen/Locks.v) turned into requests of Model.Conc,
   the forced two-request schedule the driver replays through the yield points, and the
   checkers used by Run/cases_C11.v (no proofs).

   Abstraction.  A value is the list of request ids whose effect it reflects.  Every Write of a
   request with id [me] stores (the value it last read from that location) ++ [me]: what a
   read-modify-write does when it puts back what it read plus its own contribution.  At the site
   [datastore.newVersion] the write is guarded by the uniqueness check made on the first read:
   when that read was non-empty the request refuses and changes nothing. *)
From DV Require Import Base.Prelude Model.Conc Gen.Locks.
From Coq Require Import String.
Import List ListNotations.
Local Open Scope string_scope.
Local Open Scope list_scope.

Definition val := list N.
Definition empty_store : store val := fun _ => [].

Fixpoint assoc (k : string) (l : list (string * nat)) : option nat :=
  match l with
  | [] => None
  | (k', v) :: r => if String.eqb k k' then Some v else assoc k r
  end.

Definition guarded (name : string) : bool := String.eqb name "datastore.newVersion".

Definition write_fun (g : bool) (me : N) (k : option nat) : locals val -> val :=
  fun regs =>
    let latest := match k with
                  | Some i => match nth_error regs i with Some v => v | None => [] end
                  | None => []   (* blind write *)
                  end in
    if g then match regs with
              | (_ :: _) :: _ => latest              (* the check saw an entry: refuse *)
              | _ => latest ++ [me]
              end
    else latest ++ [me].

Fixpoint to_actions (g : bool) (me : N) (evs : list gev) (nreads : nat) (last : list (string * nat))
  : list (action val) :=
  match evs with
  | [] => [Ack]
  | e :: r =>
    match e with
    | GLock m => Lock m :: to_actions g me r nreads last
    | GUnlock m => Unlock m :: to_actions g me r nreads last
    | GRLock m => RLock m :: to_actions g me r nreads last
    | GRUnlock m => RUnlock m :: to_actions g me r nreads last
    | GRead l => Read l :: to_actions g me r (S nreads) ((l, nreads) :: last)
    | GWrite l =>
      (* the value written derives from what the request last read from this location or, when it
         never read it (the memory copy of neuronjson is computed from the stored annotation),
         from its most recent read of any location; with no read at all it is a blind write *)
      let k := match assoc l last with
               | Some i => Some i
               | None => match nreads with O => None | S n => Some n end
               end in
      Write l (write_fun g me k) :: to_actions g me r nreads last
    | GYield _ => to_actions g me r nreads last
    end
  end.

Definition site_request (me : N) (s : gsite) : request val :=
  to_actions (guarded (gs_name s)) me (gs_events s) 0 [].

(* number of actions that precede the yield point named y *)
Fixpoint yield_pos (y : string) (evs : list gev) (k : nat) : option nat :=
  match evs with
  | [] => None
  | GYield n :: r => if String.eqb n y then Some k else yield_pos y r k
  | _ :: r => yield_pos y r (S k)
  end.

Fixpoint add_str (x : string) (l : list string) : list string :=
  match l with
  | [] => [x]
  | y :: r => if String.eqb x y then l else y :: add_str x r
  end.

Definition site_locs (s : gsite) : list string :=
  fold_left (fun acc e => match e with GRead l => add_str l acc | GWrite l => add_str l acc | _ => acc end)
            (gs_events s) [].
Definition site_mutexes (s : gsite) : list string :=
  fold_left (fun acc e => match e with GLock m => add_str m acc | _ => acc end) (gs_events s) [].

(* the verdict recomputed from the events: the exclusive mutex under which the site is covered *)
Definition site_cover (s : gsite) : option string :=
  find (fun mu => covered mu (site_request 1 s)) (site_mutexes s).
Definition site_covered (s : gsite) : bool := match site_cover s with Some _ => true | None => false end.
Definition verdicts_agree (s : gsite) : bool :=
  String.eqb (gs_cover s) (match site_cover s with Some mu => mu | None => "" end).

Definition find_site (name : string) : option gsite :=
  find (fun s => String.eqb (gs_name s) name) lock_table.

(* ---- sets of request ids ---- *)
Definition subset (a b : list N) : bool := forallb (fun x => existsb (N.eqb x) b) a.
Definition set_eqb (a b : list N) : bool := subset a b && subset b a.

Definition same_on (locs : list string) (a b : store val) : bool :=
  forallb (fun l => set_eqb (a l) (b l)) locs.

(* ---- the forced schedule: request 1 runs k actions and is held at the yield point; request 2
   runs as far as the mutexes let it; request 1 is released and finishes; request 2 finishes ---- *)
Fixpoint run_n (i : nat) (n : nat) (s : state val) : option (state val) :=
  match n with
  | O => Some s
  | S n' => match step s i with Some s' => run_n i n' s' | None => None end
  end.

Fixpoint run_while (i : nat) (fuel : nat) (s : state val) : state val :=
  match fuel with
  | O => s
  | S f => match step s i with Some s' => run_while i f s' | None => s end
  end.

Definition thread_done (i : nat) (s : state val) : bool :=
  match nth_error (thr s) i with Some t => finished t | None => false end.

(* (second request was blocked while the first was held, final store); None: not a complete run.
   The two requests may be of different sites (a merge and a cleave of one body). *)
Definition forced2 (s s' : gsite) (k : nat) : option (bool * store val) :=
  let r0 := site_request 1 s in
  let r1 := site_request 2 s' in
  let fuel := S (List.length r0 + List.length r1) in
  match run_n 0 k (init [r0; r1] empty_store) with
  | None => None
  | Some s1 =>
    let s2 := run_while 1 fuel s1 in
    let blocked := negb (thread_done 1 s2) in
    let s3 := run_while 0 fuel s2 in
    let s4 := run_while 1 fuel s3 in
    if all_done s4 then Some (blocked, st s4) else None
  end.
Definition forced (s : gsite) (k : nat) : option (bool * store val) := forced2 s s k.

(* the same schedule as an explicit list of thread indices (used by the refutation theorem) *)
Definition canon (k : nat) (r0 r1 : request val) : list nat :=
  repeat 0%nat k ++ repeat 1%nat (List.length r1) ++ repeat 0%nat (List.length r0 - k).

Definition lost_at (s : gsite) (k : nat) : bool :=
  let r0 := site_request 1 s in
  let r1 := site_request 2 s in
  match run_schedule (canon k r0 r1) (init [r0; r1] empty_store) with
  | Some fin =>
    all_done fin &&
    negb (same_on (site_locs s) (st fin) (run_sequential [r0; r1] empty_store)) &&
    negb (same_on (site_locs s) (st fin) (run_sequential [r1; r0] empty_store))
  | None => false
  end.

Definition find_witness (s : gsite) : option nat :=
  find (lost_at s) (seq 0 (S (List.length (site_request 1 s)))).

(* ---- cases written by the driver ---- *)
Inductive mode :=
| Forced (yield : string) (blocked : bool)   (* request 1 held at the yield point, request 2 run, 1 released *)
| Forced2 (site2 : string) (yield : string) (blocked : bool)  (* as Forced, request 2 is of another site *)
| Stress (n : nat)                           (* n concurrent requests, ids 1..n *)
| Live (yield : string) (blocked : bool)     (* as Forced, at a yield point that is not part of the site's model *)
| Hang (n : nat) (yield : string).           (* the requests never finished (deadlock): n requests, held at yield ("" = stress) *)

Record c11case := mkCase {
  c_site : string;
  c_mode : mode;
  c_acked : list N;                  (* requests answered with success *)
  c_obs : list (string * list N);    (* per view of the quiescent state: ids of the requests whose effect it shows *)
  c_extra : N;                       (* 0, or a site-specific consistency check of the quiescent state that failed *)
}.

Definition model_ok (c : c11case) : bool :=
  match c_mode c with
  | Stress _ => true
  | Live _ _ => true
  | Hang _ _ => true      (* liveness is outside the model: judged by the oracle only *)
  | Forced2 site2 y blocked =>
    match find_site (c_site c), find_site site2 with
    | Some s, Some s' =>
      match yield_pos y (gs_events s) 0 with
      | None => false
      | Some k =>
        match forced2 s s' k with
        | None => false
        | Some (b, final) =>
          Bool.eqb b blocked &&
          forallb (fun lo => negb (existsb (String.eqb (fst lo)) (site_locs s)) || set_eqb (snd lo) (final (fst lo)))
                  (c_obs c)
        end
      end
    | _, _ => false
    end
  | Forced y blocked =>
    match find_site (c_site c) with
    | None => false
    | Some s =>
      match yield_pos y (gs_events s) 0 with
      | None => false
      | Some k =>
        match forced s k with
        | None => false
        | Some (b, final) =>
          (* views that are not locations of the site's model (all-elements, the label mapping) are
             judged by the oracle only *)
          Bool.eqb b blocked &&
          forallb (fun lo => negb (existsb (String.eqb (fst lo)) (site_locs s)) || set_eqb (snd lo) (final (fst lo)))
                  (c_obs c)
        end
      end
    end
  end.

(* ---- the property as an oracle on what the implementation showed ----
   kinds: 1 acknowledged write lost, 2 derived index disagrees with primary data,
          3 two children on one branch, 4 other non-serialisable outcome,
          5 requests never complete (deadlock) *)
Definition overwrite_site (name : string) : bool :=
  String.eqb name "keyvalue.PutData" || String.eqb name "keyvalue.DeleteData".

Definition is_hang (m : mode) : bool := match m with Hang _ _ => true | _ => false end.

Definition kind_of (c : c11case) : nat :=
  if is_hang (c_mode c) then 5%nat
  else if String.eqb (c_site c) "datastore.newVersion" then
    (* views: per branch, the requests whose child exists on it *)
    if existsb (fun lo => Nat.ltb 1 (List.length (snd lo))) (c_obs c) then 3%nat
    else if negb (N.eqb (c_extra c) 0) then 4%nat else 0%nat
  else if overwrite_site (c_site c) then
    (* last writer wins: every key holds exactly one of the acknowledged values *)
    if forallb (fun lo => match snd lo with [x] => existsb (N.eqb x) (c_acked c) | _ => false end) (c_obs c)
    then (if N.eqb (c_extra c) 0 then 0%nat else 4%nat) else 1%nat
  else
    match c_obs c with
    | [] => 4%nat
    | (_, primary) :: others =>
      if negb (subset (c_acked c) primary) then 1%nat
      else if negb (forallb (fun lo => set_eqb (snd lo) primary) others) then 2%nat
      else if negb (subset primary (c_acked c)) then 4%nat
      else if negb (N.eqb (c_extra c) 0) then 4%nat
      else 0%nat
    end.

(* recorded findings (findings/C11.json): a dedicated code per site and kind; anything else keeps
   its raw kind 1..4, which is not listed as known and raises the alarm *)
Definition known_code (site : string) (kind : nat) : option nat :=
  if String.eqb site "annotation.StoreElements" then
    match kind with 1 => Some 11 | 2 => Some 12 | _ => None end%nat
  else if String.eqb site "annotation.DeleteElement" then
    match kind with 1 => Some 21 | 2 => Some 22 | _ => None end%nat
  else if String.eqb site "annotation.MoveElement" then
    match kind with 1 => Some 31 | 2 => Some 32 | _ => None end%nat
  else if String.eqb site "labelmap.MergeLabels" then
    match kind with 1 => Some 41 | 2 => Some 42 | _ => None end%nat
  else if String.eqb site "neuronjson.storeAndUpdate" then
    match kind with 1 => Some 51 | 2 => Some 52 | _ => None end%nat
  else if String.eqb site "datastore.newVersion" then
    match kind with 3 => Some 63 | 5 => Some 65 | _ => None end%nat
  else None.

Definition spec_class (c : c11case) : nat :=
  let k := kind_of c in
  if Nat.eqb k 0 then 0%nat
  else match known_code (c_site c) k with Some code => code | None => k end.

Fixpoint classify_from (i : nat) (l : list c11case) : list (nat * nat) :=
  match l with
  | [] => []
  | c :: r => let k := spec_class c in
              if Nat.eqb k 0 then classify_from (S i) r else (i, k) :: classify_from (S i) r
  end.
Definition c11_spec_fail (l : list c11case) : list (nat * nat) := classify_from 0 l.
Definition c11_model_mismatch (l : list c11case) : list nat := find_idx (fun c => negb (model_ok c)) l.
