(* Model.Gate: the request gate of server/web.go as one decision function over the tables that
   harness/cmd/gen extracts from the current source (Gen/Routes.v): middleware chains of the
   muxes, the refusal condition of every selector / gated handler (a conjunction of atoms, as
   written in the source), the nodeSelector branch whitelist, the instanceSelector keyword
   shortcuts, IsMutationRequest (default method list + per-type overrides).  Definitions only. *)
From Coq Require Import String List Bool.
From DV Require Import Base.Prelude Base.GateTypes Gen.Routes.
Import ListNotations.
Local Open Scope string_scope.

Record mode := { m_readonly : bool; m_fullwrite : bool }.
Definition mode_default : mode := {| m_readonly := false; m_fullwrite := false |}.
Definition mode_readonly : mode := {| m_readonly := true; m_fullwrite := false |}.
Definition mode_fullwrite : mode := {| m_readonly := false; m_fullwrite := true |}.

(* Refuse: the gate answers 400; Allow: the request reaches a handler; NoRoute: it passes the
   middleware but no handler is registered for (method, path): 404, nothing runs *)
Inductive verdict := Allow | Refuse | NoRoute.
Definition verdict_eqb (a b : verdict) : bool :=
  match a, b with Allow, Allow | Refuse, Refuse | NoRoute, NoRoute => true | _, _ => false end.

Inductive route :=
| RInst (pkg kw : string)      (* /api/node/:uuid/:dataname/:keyword[/...] on an instance of datatype package pkg *)
| RNode (action : string)      (* /api/node/:uuid/:action *)
| RRepo (action : string)      (* /api/repo/:uuid/:action[/:name] *)
| RRepoRaw.                    (* /api/repo/:uuid *)

Fixpoint sassoc {A} (k : string) (l : list (string * A)) : option A :=
  match l with
  | [] => None
  | (k', a) :: r => if String.eqb k k' then Some a else sassoc k r
  end.
Definition smem (x : string) (l : list string) : bool := existsb (String.eqb x) l.

(* what the conditions read *)
Record reqctx := {
  rc_mode : mode;
  rc_admin : bool;       (* c.Env["adminPriv"]: a token is configured and the request presents it *)
  rc_locked : bool;      (* datastore.LockedUUID(uuid) *)
  rc_versioned : bool;   (* data.Versioned() *)
  rc_branch : bool;      (* branchRequest *)
  rc_ismut : bool;       (* data.IsMutationRequest(r.Method, keyword) *)
  rc_method : string;    (* strings.ToLower(r.Method) *)
}.

Definition eval_atom (c : reqctx) (a : gatom) : bool :=
  match a with
  | ANotAdmin => negb (rc_admin c)
  | AReadonly => m_readonly (rc_mode c)
  | ANotFullwrite => negb (m_fullwrite (rc_mode c))
  | ALocked => rc_locked c
  | ANotBranch => negb (rc_branch c)
  | AMethodNe m => negb (String.eqb (rc_method c) m)
  | AIsMutation => rc_ismut c
  | AVersioned => rc_versioned c
  | AUnknown _ => false
  end.

(* does the refusal condition of selector / handler [name] hold?  A function without a recorded
   condition never refuses. *)
Definition fires (c : reqctx) (name : string) : bool :=
  match sassoc name gate_conds with
  | Some atoms => forallb (eval_atom c) atoms
  | None => false
  end.

(* unconditionally registered middleware of a mux, in order *)
Definition chain_of (mux : string) : list string :=
  map (fun u => snd (fst u))
      (filter (fun u => String.eqb (fst (fst u)) mux && negb (snd u)) mux_uses).

Definition mux_at (pattern : string) : option string :=
  sassoc pattern (map (fun m => (snd (fst m), snd m))
                      (filter (fun m => String.eqb (fst (fst m)) "mainMux") mux_mounts)).

(* datastore.Data.IsMutationRequest with the per-type overrides *)
Definition override_hit (pkg kw meth : string) : bool :=
  existsb (fun o => String.eqb (fst (fst o)) pkg && String.eqb (snd (fst o)) kw && String.eqb (snd o) meth)
          mutation_overrides.
Definition is_mutation (pkg kw meth : string) : bool :=
  smem meth mutation_methods && negb (override_hit pkg kw meth).

Definition is_shortcut (kw : string) : bool := smem kw (map fst instance_shortcuts).

(* the middleware chain of a mux: the first selector whose condition holds refuses; instanceSelector
   serves the shortcut keywords before it evaluates its condition and is the end of its chain *)
Fixpoint run_chain (c : reqctx) (kw : option string) (ch : list string) : option verdict :=
  match ch with
  | [] => None
  | f :: r =>
    if String.eqb f "instanceSelector" then
      match kw with
      | Some k => if is_shortcut k then Some Allow
                  else if fires c f then Some Refuse else Some Allow
      | None => if fires c f then Some Refuse else run_chain c kw r
      end
    else if fires c f then Some Refuse else run_chain c kw r
  end.

(* goji: a route registered with Get also serves HEAD *)
Definition method_matches (registered meth : string) : bool :=
  String.eqb registered meth || (String.eqb registered "get" && String.eqb meth "head").

Definition handler_of (mux meth : string) (pats : list string) : option string :=
  match find (fun r => String.eqb (fst (fst (fst r))) mux && method_matches (snd (fst (fst r))) meth
                       && smem (snd (fst r)) pats) mux_routes with
  | Some r => Some (snd r)
  | None => None
  end.

Definition routed (c : reqctx) (mux : option string) (pats : list string) : verdict :=
  match mux with
  | None => NoRoute
  | Some m =>
    match run_chain c None (chain_of m) with
    | Some v => v
    | None =>
      match handler_of m (rc_method c) pats with
      | None => NoRoute
      | Some h => if fires c h then Refuse else Allow
      end
    end
  end.

Definition gate (md : mode) (admin locked versioned : bool) (r : route) (meth : string) : verdict :=
  let ctx branch ismut :=
    {| rc_mode := md; rc_admin := admin; rc_locked := locked; rc_versioned := versioned;
       rc_branch := branch; rc_ismut := ismut; rc_method := meth |} in
  match r with
  | RInst pkg kw =>
    match mux_at "/api/node/:uuid/:dataname/:keyword" with
    | None => NoRoute
    | Some m =>
      match run_chain (ctx false (is_mutation pkg kw meth)) (Some kw) (chain_of m) with
      | Some v => v
      | None => NoRoute
      end
    end
  | RNode action =>
    routed (ctx (smem action node_branch_actions) false) (mux_at "/api/node/:uuid/:action")
           ["/api/node/:uuid/" ++ action]
  | RRepo action =>
    routed (ctx false false) (mux_at "/api/repo/:uuid/:action")
           ["/api/repo/:uuid/" ++ action; "/api/repo/:uuid/" ++ action ++ "/:name"]
  | RRepoRaw =>
    routed (ctx false false) (mux_at "/api/repo/:uuid") ["/api/repo/:uuid"]
  end.

(* (package, endpoint, method) triples that IsMutationRequest overrides may declare read-only.
   Their read-only-ness is NOT proved here: it is established per run by the store digests of
   the correspondence driver (harness/drivers/c02).  An override outside this list breaks
   C02_overrides_audited. *)
Definition proved_readonly : list (string * string * string) :=
  [("neuronjson", "query", "post"); ("roi", "ptquery", "post")].

Definition triple_eqb (a b : string * string * string) : bool :=
  String.eqb (fst (fst a)) (fst (fst b)) && String.eqb (snd (fst a)) (snd (fst b)) && String.eqb (snd a) (snd b).
Definition in_readonly (pkg kw meth : string) : bool := existsb (triple_eqb (pkg, kw, meth)) proved_readonly.

Definition write_methods : list string := ["post"; "put"; "delete"].

(* the finite checks behind the table theorems *)
Definition table_sound_b : bool :=
  forallb (fun e =>
    let pkg := fst (fst e) in let kw := snd (fst e) in
    forallb (fun meth =>
      in_readonly pkg kw meth
      || verdict_eqb (gate mode_default false true true (RInst pkg kw) meth) Refuse) write_methods)
    instance_routes.

Definition overrides_audited_b : bool :=
  forallb (fun o => existsb (triple_eqb o) proved_readonly) mutation_overrides.

Definition node_actions : list (string * string) :=   (* (method, action) of the node-level routes *)
  flat_map (fun r =>
    if String.eqb (fst (fst (fst r))) "nodeMux"
    then match snd (fst r) with
         | pat => [(snd (fst (fst r)), substring 16 (String.length pat - 16) pat)]
         end
    else []) mux_routes.

Definition node_sound_b : bool :=
  forallb (fun ma =>
    let meth := fst ma in let a := snd ma in
    if smem meth ["get"; "head"] then true
    else if smem a node_branch_actions
         then verdict_eqb (gate mode_default false true true (RNode a) meth) Allow
         else verdict_eqb (gate mode_default false true true (RNode a) meth) Refuse) node_actions.
