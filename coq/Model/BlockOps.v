(* Model.BlockOps: operations on compressed label blocks (datatype/common/labels/compressed.go):
   MergeLabels, ReplaceLabel (with getNumVoxels), ReplaceLabels — edits of the label table and of
   SBIndices, modelled as such — and the split family (splitSlow = Split, SplitSupervoxel,
   SplitSupervoxels, SplitStats, DoSplitWithStats), which expand the block, edit the array under
   run lengths and re-encode.  Definitions only. *)
From DV Require Import Base.Prelude Base.Int Base.BitPack Model.Block Model.BlockViews Gen.Consts.
Local Open Scope N_scope.

(* ---------------- MergeLabels ---------------- *)

Fixpoint last_index_of (x : N) (l : list N) (i : N) (cur : option N) : option N :=
  match l with
  | [] => cur
  | y :: r => last_index_of x r (i + 1) (if x =? y then Some i else cur)
  end.

(* indices of the table slots whose label is in the merged set *)
Definition merged_indices (labels merged : list N) : list N := label_indices labels merged.

(* MergeLabels(op).  When the target label is not in the table the Go code re-uses one of the
   merged slots, whichever map iteration yields first: [choice] is that slot (any member of the
   merged indices).  The label table and SBIndices are edited in place on a copy. *)
Definition merge_labels (b : block) (target : N) (merged : list N) (choice : N) : res block :=
  let mi := merged_indices (b_labels b) merged in
  let labels1 := map (fun l => if mem l merged then 0 else l) (b_labels b) in
  match mi with
  | [] => Ok b                                              (* numMerged == 0 *)
  | _ =>
    match last_index_of target (b_labels b) 0 None with
    | Some ti =>
      Ok (mkBlock (b_gx b) (b_gy b) (b_gz b) labels1 (b_nsb b)
                  (map (fun ix => if mem ix mi then ti else ix) (b_idx b)) (b_vals b))
    | None =>
      if negb (mem choice mi) then Err                     (* not a behaviour of the code: bad choice *)
      else
        let labels2 := map (fun p => if fst p =? choice then target else snd p)
                           (combine (nseq (N.of_nat (length labels1))) labels1) in
        Ok (mkBlock (b_gx b) (b_gy b) (b_gz b) labels2 (b_nsb b)
                    (map (fun ix => if mem ix mi then choice else ix) (b_idx b)) (b_vals b))
    end
  end.

(* ---------------- getNumVoxels ---------------- *)

(* [fixed] = false: the code as found — inside a multi-label sub-block only the LAST slot pointing
   to labelIndex is counted (aliased slots are lost), and when the label is absent from a
   multi-label sub-block the loop `continue`s without advancing the bit position, so every later
   sub-block is read at the wrong place.  [fixed] = true: repo_patches/C10-1-fix.diff. *)
Definition nv_state := (N * N * N)%type.     (* indexPos, bitpos, labelVoxels *)

Definition nv_sb (fixed : bool) (b : block) (li : N) (st : nv_state) (n : N) : res nv_state :=
  let '(ip, bp, acc) := st in
  if n =? 0 then Ok st
  else if n =? 1 then
    match nth_N (b_idx b) ip with
    | Some ix => Ok (ip + 1, bp, if ix =? li then acc + 512 else acc)
    | None => Panic
    end
  else
    let k := bits_for n in
    match mapR (fun j => opt_res (nth_N (b_idx b) (ip + j))) (nseq n) with
    | Ok ixs =>
      if fixed then
        (* count every voxel whose slot points to labelIndex *)
        match mapR (fun i => match get_packed (b_vals b) (bp + i * k) k with
                             | Ok v => Ok (match nth_N ixs v with Some ix => ix =? li | None => false end)
                             | Err => Err | Panic => Panic end) (nseq 512) with
        | Ok hits => Ok (ip + n, bp + 512 * k, acc + N.of_nat (length (filter (fun h => h) hits)))
        | Err => Err | Panic => Panic
        end
      else
        match last_index_of li ixs 0 None with
        | None => Ok (ip + n, bp, acc)                        (* continue: bitpos not advanced *)
        | Some ti =>
          match mapR (fun i => match get_packed (b_vals b) (bp + i * k) k with
                               | Ok v => Ok (v =? ti) | Err => Err | Panic => Panic end) (nseq 512) with
          | Ok hits => Ok (ip + n, bp + 512 * k, acc + N.of_nat (length (filter (fun h => h) hits)))
          | Err => Err | Panic => Panic
          end
        end
    | Err => Err | Panic => Panic
    end.

Fixpoint nv_sbs (fixed : bool) (b : block) (li : N) (st : nv_state) (ns : list N) : res nv_state :=
  match ns with
  | [] => Ok st
  | n :: r => match nv_sb fixed b li st n with Ok st' => nv_sbs fixed b li st' r | Err => Err | Panic => Panic end
  end.

Definition get_num_voxels (fixed : bool) (b : block) (li : N) : res N :=
  let nvox := 8 * b_gx b * (8 * b_gy b) * (8 * b_gz b) in
  match b_labels b with
  | [] => Ok 0
  | [_] => Ok (if li =? 0 then nvox else 0)
  | _ =>
    let nsbs := b_gx b * b_gy b * b_gz b in
    if N.of_nat (length (b_nsb b)) <? nsbs then Panic
    else match nv_sbs fixed b li (0, 0, 0) (firstn (N.to_nat nsbs) (b_nsb b)) with
         | Ok (_, _, acc) => Ok acc
         | Err => Err | Panic => Panic
         end
  end.

(* ---------------- ReplaceLabel / ReplaceLabels ---------------- *)

(* for i, label := range Labels: if label == target { size += getNumVoxels(i); Labels[i] = newLabel }
   (getNumVoxels does not read Labels, so the in-place edit does not interfere) *)
Definition replace_label (fixed : bool) (b : block) (target newLabel : N) : res (block * N) :=
  let slots := label_indices (b_labels b) [target] in
  match mapR (get_num_voxels fixed b) slots with
  | Ok sizes =>
    Ok (mkBlock (b_gx b) (b_gy b) (b_gz b)
                (map (fun l => if l =? target then newLabel else l) (b_labels b))
                (b_nsb b) (b_idx b) (b_vals b),
        fold_left N.add sizes 0)
  | Err => Err | Panic => Panic
  end.

Fixpoint assoc (m : list (N * N)) (k : N) : option N :=
  match m with
  | [] => None
  | (k', v) :: r => if k =? k' then Some v else assoc r k
  end.

(* ReplaceLabels(mapping): every table slot whose label is a key gets the mapped label *)
Definition replace_labels (b : block) (m : list (N * N)) : block * bool :=
  (mkBlock (b_gx b) (b_gy b) (b_gz b)
           (map (fun l => match assoc m l with Some v => v | None => l end) (b_labels b))
           (b_nsb b) (b_idx b) (b_vals b),
   existsb (fun l => match assoc m l with Some _ => true | None => false end) (b_labels b)).

(* ---------------- arrays under run lengths ---------------- *)

Definition rle := (Z * Z * Z * Z)%type.     (* start x y z (DVID space), length *)

(* the linear index range a run covers in the block at voxel offset (offx,offy,offz):
   i := pt[2]*sy*sx + pt[1]*sx + pt[0]; for x := 0; x < length; x++ { a[i]; i++ } *)
Definition run_range (nx ny : N) (offx offy offz : Z) (r : rle) : Z * Z :=
  let '(x, y, z, len) := r in
  (((z - offz) * Z.of_N ny * Z.of_N nx + (y - offy) * Z.of_N nx + (x - offx))%Z, len).

(* apply f to a[i .. i+len-1], counting the entries for which [hit] holds; an index outside the
   array is a Go panic; a non-positive length does nothing *)
Definition upd_range (a : list N) (i len : Z) (hit : N -> bool) (f : N -> N) : res (list N * N) :=
  if (len <=? 0)%Z then Ok (a, 0)
  else if (i <? 0)%Z || (Z.of_nat (length a) <? i + len)%Z then Panic
  else
    let s := Z.to_nat i in let n := Z.to_nat len in
    let mid := firstn n (skipn s a) in
    Ok (firstn s a ++ map (fun l => if hit l then f l else l) mid ++ skipn (s + n) a,
        N.of_nat (length (filter hit mid))).

Fixpoint upd_runs (a : list N) (rs : list (Z * Z)) (hit : N -> bool) (f : N -> N) (cnt : N) : res (list N * N) :=
  match rs with
  | [] => Ok (a, cnt)
  | (i, len) :: r =>
    match upd_range a i len hit f with
    | Ok (a', c) => upd_runs a' r hit f (cnt + c)
    | Err => Err | Panic => Panic
    end
  end.

Definition count_eq (a : list N) (l : N) : N := N.of_nat (length (filter (N.eqb l) a)).

(* the table MakeBlock will use is Go map order: a parameter, as in Model.Block *)
Definition block_off (b : block) (bx by_ bz : Z) : Z * Z * Z :=
  ((bx * Z.of_N (8 * b_gx b))%Z, (by_ * Z.of_N (8 * b_gy b))%Z, (bz * Z.of_N (8 * b_gz b))%Z).

(* Split = splitSlow: (nil, 0, 0) when the target is absent *)
Definition split_slow (tbl : list N -> list N) (b : block) (bx by_ bz : Z) (target newLabel : N) (rles : list rle)
  : res (option block * N * N) :=
  match decode b with
  | Ok a =>
    let kept0 := count_eq a target in
    if kept0 =? 0 then Ok (None, 0, 0)
    else
      let '(ox, oy, oz) := block_off b bx by_ bz in
      match upd_runs a (map (run_range (8 * b_gx b) (8 * b_gy b) ox oy oz) rles) (N.eqb target) (fun _ => newLabel) 0 with
      | Ok (a', split) =>
        match encode (tbl a') a' (b_gx b) (b_gy b) (b_gz b) with
        | Ok b' => Ok (Some b', kept0 - split, split)      (* keptSize-- per split voxel (uint64) *)
        | Err => Err | Panic => Panic
        end
      | Err => Err | Panic => Panic
      end
  | Err => Err | Panic => Panic
  end.

(* SplitSupervoxel: [rles] = op.Split[pb.BCoord] if present, else none *)
Definition split_supervoxel (tbl : list N -> list N) (b : block) (bx by_ bz : Z) (sv splitSV remainSV : N) (rles : list rle)
  : res (block * N * N) :=
  match decode b with
  | Ok a =>
    let '(ox, oy, oz) := block_off b bx by_ bz in
    match upd_runs a (map (run_range (8 * b_gx b) (8 * b_gy b) ox oy oz) rles) (N.eqb sv) (fun _ => splitSV) 0 with
    | Ok (a1, split) =>
      let kept := count_eq a1 sv in
      let a2 := map (fun l => if l =? sv then remainSV else l) a1 in
      match encode (tbl a2) a2 (b_gx b) (b_gy b) (b_gz b) with
      | Ok b' => Ok (b', kept, split)
      | Err => Err | Panic => Panic
      end
    | Err => Err | Panic => Panic
    end
  | Err => Err | Panic => Panic
  end.

(* SplitSupervoxels(rles, svsplits): svsplits as association list label -> (split, remain) *)
Fixpoint assoc2 (m : list (N * (N * N))) (k : N) : option (N * N) :=
  match m with
  | [] => None
  | (k', v) :: r => if k =? k' then Some v else assoc2 r k
  end.

Definition split_supervoxels (tbl : list N -> list N) (b : block) (bx by_ bz : Z) (rles : list rle) (sv : list (N * (N * N)))
  : res block :=
  match decode b with
  | Ok a =>
    let '(ox, oy, oz) := block_off b bx by_ bz in
    let isk l := match assoc2 sv l with Some _ => true | None => false end in
    match upd_runs a (map (run_range (8 * b_gx b) (8 * b_gy b) ox oy oz) rles) isk
                   (fun l => match assoc2 sv l with Some (s, _) => s | None => l end) 0 with
    | Ok (a1, _) =>
      let a2 := map (fun l => match assoc2 sv l with Some (_, r) => r | None => l end) a1 in
      encode (tbl a2) a2 (b_gx b) (b_gy b) (b_gz b)
    | Err => Err | Panic => Panic
    end
  | Err => Err | Panic => Panic
  end.
