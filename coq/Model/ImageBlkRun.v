(* Model.ImageBlkRun: case type and executable checkers for Run/cases_C17.v (no proofs).
   A case is the history of one data instance: configuration and the requests made, each with
   what the implementation answered.
   model_ok   : every answer equals the model's (Model/ImageBlk.v run over the same history);
   spec_class : every answer equals the REFERENCE semantics "value of the last write covering the
                voxel, else background", computed from the list of writes alone. *)
From DV Require Import Base.Prelude Base.WrapZ Model.Geometry Model.ROI Model.ImageBlk.
Local Open Scope Z_scope.

Inductive op :=
| OPostRaw (off size : pt) (data : bytes) (roi : option (list span)) (ok : bool)
| OGetRaw (g : geom) (roi : option (list span)) (att : Z) (result : res bytes)
| OPostBlocks (start : pt) (span : Z) (data : bytes) (ok : bool)
| OGetBlocks (start : pt) (span : Z) (result : res bytes)
| OStored (ordered : bool) (req : list pt) (result : res (list (pt * bytes)))   (* subvolblocks / specificblocks *)
| OExtents (e : extents).

Inductive c17case :=
| KHist (c : cfg) (ops : list op)
(* package level: Voxels.ReadBlock / WriteBlock on one block *)
| KXfer (c : cfg) (g : geom) (stride : Z) (b : pt) (data blk : bytes) (rd wr : res bytes)
(* package level: Voxels.ReadBlock with an attenuation (readScaledBlock) *)
| KScaled (c : cfg) (g : geom) (stride : Z) (b : pt) (data blk : bytes) (att : Z) (rd : res bytes)
(* the server process died while serving the history *)
| KCrash (c : cfg) (cls : nat).

Definition res_eqb {A} (eqb : A -> A -> bool) (a b : res A) : bool :=
  match a, b with Ok x, Ok y => eqb x y | Err, Err => true | Panic, Panic => true | _, _ => false end.
Definition blk_eqb (a b : pt * bytes) : bool := pt_eqb (fst a) (fst b) && bytes_eqb (snd a) (snd b).
Definition ext_eqb (a b : extents) : bool :=
  match a, b with
  | None, None => true
  | Some (a1, a2), Some (b1, b2) => pt_eqb a1 b1 && pt_eqb a2 b2
  | _, _ => false
  end.
Definition same_blocks (a b : list (pt * bytes)) : bool :=
  Nat.eqb (length a) (length b) && forallb (fun x => existsb (blk_eqb x) b) a.

(* ---- the model run over a history.  The two switches say which code the implementation is:
   fill  = NewVoxels presets the background (C17-1), fixed = POST blocks repaired (C17-2, C17-3) *)
Fixpoint run_model (fill fixed : bool) (c : cfg) (s : state) (ops : list op) : bool :=
  match ops with
  | [] => true
  | o :: t =>
    match o with
    | OPostRaw off size data roi ok =>
      match post_raw c s off size data roi with
      | Ok s' => ok && run_model fill fixed c s' t
      | _ => negb ok && run_model fill fixed c s t
      end
    | OGetRaw g roi att result =>
      res_eqb bytes_eqb (get_raw_att fill c s g roi att) result && run_model fill fixed c s t
    | OPostBlocks start span data ok =>
      match post_blocks fixed c s start span data with
      | Ok s' => ok && run_model fill fixed c s' t
      | _ => negb ok && run_model fill fixed c s t
      end
    | OGetBlocks start span result =>
      res_eqb bytes_eqb (Ok (get_blocks c s start span)) result && run_model fill fixed c s t
    | OStored ordered req result =>
      (match result with
       | Ok l => if ordered then list_eqb blk_eqb (stored_blocks s req) l else same_blocks (stored_blocks s req) l
       | _ => false
       end) && run_model fill fixed c s t
    | OExtents e =>
      (* a version with no write in its ancestry has no stored extents; GetExtents then falls back
         to the instance-level Properties ("old dataset"), i.e. to whatever any version persisted
         last: not a per-version quantity, any answer is accepted there *)
      (match ext s with None => true | Some _ => ext_eqb (ext s) e end) && run_model fill fixed c s t
    end
  end.

Definition model_ok (k : c17case) : bool :=
  match k with
  | KHist c ops =>
    let c1 := C (bsz c) (bpv c) (bgv c) (bgpat c) true in
    let c0 := C (bsz c) (bpv c) (bgv c) (bgpat c) false in
    if run_model true true c1 st0 ops then true else
    if run_model true true c0 st0 ops then true else
    if run_model false true c0 st0 ops then true else
    if run_model true false c0 st0 ops then true else run_model false false c0 st0 ops
  | KXfer c g stride b data blk rd wr =>
    res_eqb bytes_eqb (read_block c g stride data blk b) rd
    && res_eqb bytes_eqb (write_block c g stride data blk b) wr
  | KScaled c g stride b data blk att rd =>
    if bpv c =? 1 then res_eqb bytes_eqb (read_block c g stride data (scaled_block att blk) b) rd
    else res_eqb bytes_eqb Err rd
  | KCrash _ _ => true
  end.

(* ---- reference semantics ---- *)
(* a successful write: box [off, off+size), its bytes in x-fastest order, optional ROI *)
Record wr : Type := W { w_off : pt; w_size : pt; w_data : bytes; w_roi : option (list span) }.

Definition in_box (off size p : pt) : bool :=
  (px off <=? px p) && (px p <? px off + px size) && (py off <=? py p) && (py p <? py off + py size)
  && (pz off <=? pz p) && (pz p <? pz off + pz size).
Definition fdiv_pt (p s : pt) : pt := (px p / px s, py p / py s, pz p / pz s).
Definition nth_byte (l : bytes) (i : Z) : option N := nth_error l (Z.to_nat i).

(* byte ch of voxel p as written by w, if w covers p (and p's block is inside w's ROI) *)
Definition wr_byte (c : cfg) (w : wr) (p : pt) (ch : Z) : option N :=
  if in_box (w_off w) (w_size w) p
     && match w_roi w with None => true | Some sp => in_spans (fdiv_pt p (bsz c)) sp end
  then
    let r := (px p - px (w_off w), py p - py (w_off w), pz p - pz (w_off w)) in
    nth_byte (w_data w) (((pz r * py (w_size w) + py r) * px (w_size w) + px r) * bpv c + ch)
  else None.
(* newest write first *)
Fixpoint ref_byte (c : cfg) (ws : list wr) (p : pt) (ch : Z) : option N :=
  match ws with
  | [] => None
  | w :: t => match wr_byte c w p ch with Some v => Some v | None => ref_byte c t p ch end
  end.
Definition written (c : cfg) (ws : list wr) (b : pt) : bool :=
  existsb (fun w => in_box (w_off w) (w_size w) (block_min (bsz c) b)
                    && match w_roi w with None => true | Some sp => in_spans b sp end) ws.

Definition zseq (n : Z) : list Z := map Z.of_nat (seq 0 (Z.to_nat n)).
(* voxels of a geometry in buffer order, as absolute coordinates *)
Definition geom_voxels (g : geom) : list pt :=
  let o := goff g in
  match gshape g with
  | XY => flat_map (fun y => map (fun x => (px o + x, py o + y, pz o)) (zseq (gw g))) (zseq (gh g))
  | XZ => flat_map (fun z => map (fun x => (px o + x, py o, pz o + z)) (zseq (gw g))) (zseq (gh g))
  | YZ => flat_map (fun z => map (fun y => (px o, py o + y, pz o + z)) (zseq (gw g))) (zseq (gh g))
  | Vol3d => flat_map (fun z => flat_map (fun y => map (fun x => (px o + x, py o + y, pz o + z)) (zseq (gw g)))
                                         (zseq (gh g))) (zseq (gd g))
  end.
(* expected bytes of a list of voxels; an unwritten voxel is the background voxel *)
Definition ref_bytes (c : cfg) (ws : list wr) (vs : list pt) : list (option N) :=
  flat_map (fun p => map (fun ch => match ref_byte c ws p ch with Some v => Some v | None => Some (nth (Z.to_nat ch) (bgpat c) 0%N) end)
                         (zseq (bpv c))) vs.
Fixpoint opt_bytes_eqb (a : list (option N)) (b : bytes) : bool :=
  match a, b with
  | [], [] => true
  | Some v :: a', y :: b' => N.eqb v y && opt_bytes_eqb a' b'
  | _, _ => false
  end.

Definition block_voxel_list (c : cfg) (b : pt) : list pt :=
  geom_voxels (G Vol3d (block_min (bsz c) b) (px (bsz c)) (py (bsz c)) (pz (bsz c))).

Definition pt_le (a b : pt) : bool := (px a <=? px b) && (py a <=? py b) && (pz a <=? pz b).

(* the background byte of channel ch: the voxel whose every value is Background *)
Definition bgp (c : cfg) (ch : Z) : N := nth (Z.to_nat ch) (bgpat c) 0%N.
(* voxels wider than one byte with a non-zero Background: before C17-4 the code had no single
   background for them; failures of such histories are reported under their own class *)
Definition wide_bg (c : cfg) : bool := negb (bpv c =? 1) && negb (N.eqb (bgv c) 0).

(* classes: 1 raw 3d read, 2 2d slice read, 3 blocks read, 4 subvolblocks/specificblocks,
   5 extents do not cover a write, 6 ROI write/read, 8 refusal/panic of a valid request,
   9 unwritten voxels are not the background (one-byte voxels), 10 single-block transfer,
   11 background of voxels wider than one byte, 12 attenuated read *)
Fixpoint run_spec (c : cfg) (ws : list wr) (ops : list op) : nat :=
  match ops with
  | [] => 0%nat
  | o :: t =>
    match o with
    | OPostRaw off size data roi ok =>
      if ok then run_spec c (W off size data roi :: ws) t
      else (* the driver only posts valid block-aligned volumes unless it says so by size 0 *)
        if (px size =? 0) then run_spec c ws t else 8%nat
    | OGetRaw g roi att result =>
      match result with
      | Ok buf =>
        let vs := geom_voxels g in
        let inroi p := match roi with None => true | Some sp => in_spans (fdiv_pt p (bsz c)) sp end in
        let expect := flat_map (fun p => map (fun ch =>
                         match ref_byte c ws p ch with
                         | None => Some (bgp c ch)
                         | Some v => if inroi p then Some v
                                     else if att =? 0 then Some (bgp c ch)
                                     else if bpv c =? 1 then Some (N.shiftr v (Z.to_N att)) else Some (bgp c ch)
                         end) (zseq (bpv c))) vs in
        if opt_bytes_eqb expect buf then run_spec c ws t
        else if negb (att =? 0) then 12%nat
        else if wide_bg c then 11%nat
        else match roi with
             | Some _ => 6%nat
             | None =>
               (* which part failed: an unwritten voxel or a written one *)
               let fix unwritten_bad (vs : list pt) (buf : bytes) : bool :=
                   match vs with
                   | [] => false
                   | p :: vt =>
                     let n := Z.to_nat (bpv c) in
                     (match ref_byte c ws p 0 with
                      | None => negb (bytes_eqb (firstn n buf) (map (bgp c) (zseq (bpv c))))
                      | Some _ => false
                      end) || unwritten_bad vt (skipn n buf)
                   end in
               if unwritten_bad vs buf then 9%nat
               else match gshape g with Vol3d => 1%nat | _ => 2%nat end
             end
      | Err => if negb (att =? 0) then 12%nat else 8%nat
      | Panic => if negb (att =? 0) then 12%nat else 8%nat
      end
    | OPostBlocks start span data ok =>
      if ok then
        let n := Z.to_nat (block_bytes c) in
        let fix mk (i : nat) (b : pt) (d : bytes) : list wr :=
            match i with
            | O => []
            | S i' => mk i' (px b + 1, py b, pz b) (skipn n d) ++ [W (block_min (bsz c) b) (bsz c) (firstn n d) None]
            end in
        run_spec c (mk (Z.to_nat span) start data ++ ws) t
      else 8%nat
    | OGetBlocks start span result =>
      match result with
      | Ok buf =>
        let vs := flat_map (fun i => block_voxel_list c (px start + i, py start, pz start)) (zseq span) in
        if opt_bytes_eqb (ref_bytes c ws vs) buf then run_spec c ws t
        else if wide_bg c then 11%nat else 3%nat
      | _ => 8%nat
      end
    | OStored ordered req result =>
      match result with
      | Ok l =>
        let expect := filter (written c ws) req in
        if Nat.eqb (length l) (length expect)
           && forallb (fun b => existsb (fun e => pt_eqb (fst e) b
                                   && opt_bytes_eqb (ref_bytes c ws (block_voxel_list c b)) (snd e)) l) expect
        then run_spec c ws t else 4%nat
      | _ => 8%nat
      end
    | OExtents e =>
      if forallb (fun w => match e with
                           | Some (mn, mx) => pt_le mn (w_off w)
                               && pt_le (px (w_off w) + px (w_size w) - 1, py (w_off w) + py (w_size w) - 1,
                                         pz (w_off w) + pz (w_size w) - 1) mx
                           | None => false
                           end) ws
      then run_spec c ws t else 5%nat
    end
  end.

(* single-block transfer: the voxels of the geometry that lie in block b, and where each sits in
   the request buffer and in the block *)
Fixpoint set_nthN (l : bytes) (n : nat) (v : N) : bytes :=
  match l, n with
  | [], _ => []
  | _ :: t, O => v :: t
  | h :: t, S n' => h :: set_nthN t n' v
  end.
Definition ref_didx (c : cfg) (g : geom) (stride : Z) (p : pt) : Z :=
  let r := (px p - px (goff g), py p - py (goff g), pz p - pz (goff g)) in
  match gshape g with
  | XY => py r * stride + px r * bpv c
  | XZ => pz r * stride + px r * bpv c
  | YZ => pz r * stride + py r * bpv c
  | Vol3d => (pz r * gh g + py r) * (gw g * bpv c) + px r * bpv c
  end.
Definition ref_bidx (c : cfg) (b p : pt) : Z :=
  let q := (px p - px b * px (bsz c), py p - py b * py (bsz c), pz p - pz b * pz (bsz c)) in
  ((pz q * py (bsz c) + py q) * px (bsz c) + px q) * bpv c.
Definition xfer_expect (to_block : bool) (c : cfg) (g : geom) (stride : Z) (b : pt) (data blk : bytes) : bytes :=
  let part := filter (fun p => pt_eqb (fdiv_pt p (bsz c)) b) (geom_voxels g) in
  fold_left (fun acc p =>
     fold_left (fun acc ch =>
        let di := Z.to_nat (ref_didx c g stride p + ch) in
        let bi := Z.to_nat (ref_bidx c b p + ch) in
        if to_block then set_nthN acc bi (nth di data 0%N) else set_nthN acc di (nth bi blk 0%N))
        (zseq (bpv c)) acc) part (if to_block then blk else data).

Definition spec_class (k : c17case) : nat :=
  match k with
  | KHist c ops => run_spec c [] ops
  | KXfer c g stride b data blk rd wr =>
    match rd, wr with
    | Ok d', Ok b' =>
      if bytes_eqb d' (xfer_expect false c g stride b data blk) && bytes_eqb b' (xfer_expect true c g stride b data blk)
      then 0%nat else 10%nat
    | _, _ => 8%nat
    end
  | KScaled c g stride b data blk att rd =>
    if bpv c =? 1 then
      match rd with
      | Ok d' => if bytes_eqb d' (xfer_expect false c g stride b data (scaled_block att blk)) then 0%nat else 12%nat
      | _ => 12%nat
      end
    else if is_panic rd then 12%nat else 0%nat
  | KCrash _ k => k
  end.

Fixpoint classify_from (i : nat) (l : list c17case) : list (nat * nat) :=
  match l with
  | [] => []
  | c :: r => let k := spec_class c in
              if Nat.eqb k 0 then classify_from (S i) r else (i, k) :: classify_from (S i) r
  end.
Definition c17_spec_fail (l : list c17case) : list (nat * nat) := classify_from 0 l.
Definition c17_model_mismatch (l : list c17case) : list nat := find_idx (fun c => negb (model_ok c)) l.

(* ---- compact data in the generated cases ---- *)
(* test pattern: byte i = (a + i * s) mod 251 + 1  (never 0, period 251) *)
Definition pat (a s n : Z) : bytes := map (fun i => Z.to_N ((a + i * s) mod 251 + 1)) (zseq n).
Definition rp (v : N) (n : nat) : bytes := repeat v n.
Definition tile (v : bytes) (n : nat) : bytes := concat (repeat v n).
Definition spl (l : list (Z * Z * Z * Z)) : list span :=
  map (fun q => match q with (z, y, x0, x1) => SP z y x0 x1 end) l.
