(* Model.ImageBlk: block <-> request-buffer transfer of datatype/imageblk (C17).
     read.go   Voxels.ComputeTransform :24   readBlock :155   BackgroundBlock :287   GetVoxels :323
               GetBlocks :455   readChunk :661
     write.go  writeBlock :19   PutVoxels :135   PutBlocks :217   putChunk :319
     imageblk.go  NewVoxels :1329   PostExtents :1434
     dvid/geometry.go  Extents.AdjustPoints :79   Subvolume / OrthogSlice (StartPoint, EndPoint, Size)
     dvid/index.go     IndexZYXIterator :597 (Valid compares KEY BYTES, see C18)   dvid/point.go BlockAligned :134
     datatype/roi/iterator.go  InsideFast :88
   The versioned key-value layer is abstracted to a map  block coordinate -> block bytes.
   A request buffer and a block are byte lists; a Go slice expression out of range is Panic.
   Definitions only. *)
From DV Require Import Base.Prelude Base.WrapZ Model.Geometry Model.ROI.
Local Open Scope Z_scope.

Inductive shape := XY | XZ | YZ | Vol3d.
(* Size(): (gw, gh) for a 2d slice, (gw, gh, gd) for a subvolume *)
Record geom : Type := G { gshape : shape; goff : pt; gw : Z; gh : Z; gd : Z }.

(* instance properties: block size, bytes per voxel (all channels), Background; bgpat is one voxel
   with every value set to Background (little-endian integers, IEEE floats) and bgfix says whether
   the code fills with that voxel (repo_patches/C17-4-fix.diff) or, as it stood, with the byte
   (one-byte voxels only in BackgroundBlock/NewVoxels, every byte in GET blocks) *)
Record cfg : Type := C { bsz : pt; bpv : Z; bgv : N; bgpat : bytes; bgfix : bool }.

Definition zlen {A} (l : list A) : Z := Z.of_nat (length l).

(* extent of the geometry in voxels along x, y, z *)
Definition g_size3 (g : geom) : pt :=
  match gshape g with
  | XY => (gw g, gh g, 1)
  | XZ => (gw g, 1, gh g)
  | YZ => (1, gw g, gh g)
  | Vol3d => (gw g, gh g, gd g)
  end.
(* EndPoint(): Subvolume: offset + (size - 1); OrthogSlice: offset with the two slice axes moved *)
Definition g_end (g : geom) : pt :=
  let s := g_size3 g in
  (w32 (px (goff g) + w32 (px s - 1)), w32 (py (goff g) + w32 (py s - 1)), w32 (pz (goff g) + w32 (pz s - 1))).
Definition g_numvoxels (g : geom) : Z :=
  match gshape g with Vol3d => gw g * gh g * gd g | _ => gw g * gh g end.

Definition pmax (a b : pt) : pt := (Z.max (px a) (px b), Z.max (py a) (py b), Z.max (pz a) (pz b)).
Definition pmin (a b : pt) : pt := (Z.min (px a) (px b), Z.min (py a) (py b), Z.min (pz a) (pz b)).
Definition psub (a b : pt) : pt := (w32 (px a - px b), w32 (py a - py b), w32 (pz a - pz b)).

Definition block_min (bs b : pt) : pt := (w32 (px b * px bs), w32 (py b * py bs), w32 (pz b * pz bs)).
Definition block_max (bs b : pt) : pt :=
  (w32 (w32 (w32 (px b + 1) * px bs) - 1), w32 (w32 (w32 (py b + 1) * py bs) - 1), w32 (w32 (w32 (pz b + 1) * pz bs) - 1)).

(* ComputeTransform: (blockBeg, dataBeg, dataEnd) *)
Definition compute_transform (g : geom) (bs b : pt) : pt * pt * pt :=
  let minB := block_min bs b in
  let maxB := block_max bs b in
  let begV := pmax (goff g) minB in
  let endV := pmin (g_end g) maxB in
  (psub begV minB, psub begV (goff g), psub endV (goff g)).

(* copy(dst[di:di+n], src[si:si+n]) *)
Definition copy_seg (dst : bytes) (di : Z) (src : bytes) (si n : Z) : res bytes :=
  if (0 <=? n) && (0 <=? di) && (di + n <=? zlen dst) && (0 <=? si) && (si + n <=? zlen src)
  then Ok (firstn (Z.to_nat di) dst ++ firstn (Z.to_nat n) (skipn (Z.to_nat si) src) ++ skipn (Z.to_nat (di + n)) dst)
  else Panic.

(* n copies of len bytes, destination and source indices advancing by their steps *)
Fixpoint rows (n : nat) (dst src : bytes) (di si dstep sstep len : Z) : res bytes :=
  match n with
  | O => Ok dst
  | S n' => match copy_seg dst di src si len with
            | Ok d => rows n' d src (di + dstep) (si + sstep) dstep sstep len
            | e => e
            end
  end.
Fixpoint planes (m : nat) (dst src : bytes) (di si dstep2 sstep2 : Z) (n : nat) (dstep sstep len : Z) : res bytes :=
  match m with
  | O => Ok dst
  | S m' => match rows n dst src di si dstep sstep len with
            | Ok d => planes m' d src (di + dstep2) (si + sstep2) dstep2 sstep2 n dstep sstep len
            | e => e
            end
  end.

Definition cnt (a b : Z) : nat := Z.to_nat (b - a + 1).   (* for v := a; v <= b; v++ *)

(* the index plan of readBlock / writeBlock: the two loops as (start indices, steps, counts, length)
   for the request buffer (d...) and the block (b...) *)
Record plan : Type := PL { p_m : nat; p_dI : Z; p_bI : Z; p_d2 : Z; p_b2 : Z; p_n : nat; p_d1 : Z; p_b1 : Z; p_len : Z }.

Definition xfer_plan (c : cfg) (g : geom) (stride : Z) (b : pt) : plan :=
  let '(bb, db, de) := compute_transform g (bsz c) b in
  let v := bpv c in
  let bX := px (bsz c) * v in
  let bY := py (bsz c) * bX in
  let dX := stride in
  match gshape g with
  | XY =>
    PL 1 (py db * dX + px db * v) (pz bb * bY + py bb * bX + px bb * v) 0 0
       (cnt (py db) (py de)) dX bX ((px de - px db + 1) * v)
  | XZ =>
    PL 1 (pz db * dX + px db * v) (pz bb * bY + py bb * bX + px bb * v) 0 0
       (cnt (pz db) (pz de)) dX bY ((px de - px db + 1) * v)
  | YZ =>
    PL (cnt (pz db) (pz de)) (pz db * dX + py db * v) (pz bb * bY + py bb * bX + px bb * v) dX bY
       (cnt (py db) (py de)) v bX v
  | Vol3d =>
    let dX' := gw g * v in
    let dY := gh g * dX' in
    PL (cnt (pz db) (pz de)) (pz db * dY + py db * dX' + px db * v) (pz bb * bY + py bb * bX + px bb * v) dY bY
       (cnt (py db) (py de)) dX' bX ((px de - px db + 1) * v)
  end.

(* readBlock: block -> request buffer *)
Definition read_block (c : cfg) (g : geom) (stride : Z) (data blk : bytes) (b : pt) : res bytes :=
  let p := xfer_plan c g stride b in
  planes (p_m p) data blk (p_dI p) (p_bI p) (p_d2 p) (p_b2 p) (p_n p) (p_d1 p) (p_b1 p) (p_len p).
(* writeBlock: request buffer -> block *)
Definition write_block (c : cfg) (g : geom) (stride : Z) (data blk : bytes) (b : pt) : res bytes :=
  let p := xfer_plan c g stride b in
  planes (p_m p) blk data (p_bI p) (p_dI p) (p_b2 p) (p_d2 p) (p_n p) (p_b1 p) (p_d1 p) (p_len p).

(* ---- the block map ---- *)
Definition bstore : Type := list (pt * bytes).
Fixpoint st_get (st : bstore) (b : pt) : option bytes :=
  match st with
  | [] => None
  | (k, v) :: t => if pt_eqb k b then Some v else st_get t b
  end.
Fixpoint st_put (st : bstore) (b : pt) (v : bytes) : bstore :=
  match st with
  | [] => [(b, v)]
  | (k, v0) :: t => if pt_eqb k b then (k, v) :: t else (k, v0) :: st_put t b v
  end.

Definition block_voxels (c : cfg) : Z := px (bsz c) * py (bsz c) * pz (bsz c).
Definition block_bytes (c : cfg) : Z := block_voxels c * bpv c.
(* byte ch of a background voxel as BackgroundBlock() / NewVoxels write it *)
Definition bg_at (c : cfg) (ch : Z) : N :=
  if bgfix c then nth (Z.to_nat ch) (bgpat c) 0%N
  else if negb (N.eqb (bgv c) 0) && (bpv c =? 1) then bgv c else 0%N.
Definition bg_voxel (c : cfg) : bytes := map (fun ch => bg_at c (Z.of_nat ch)) (seq 0 (Z.to_nat (bpv c))).
Definition bg_tile (c : cfg) (nvox : Z) : bytes := concat (repeat (bg_voxel c) (Z.to_nat nvox)).
Definition background_block (c : cfg) : bytes := bg_tile c (block_voxels c).

(* ---- block iteration: IndexZYXIterator ---- *)
(* Valid(): bytes.Compare(key(cursor), key(end)) <= 0 *)
Definition iter_valid (cur endb : pt) : bool :=
  match to_zyx cur, to_zyx endb with
  | Ok a, Ok b => match bytes_cmp a b with Gt => false | _ => true end
  | _, _ => false
  end.
(* the (y, z) of every span, in order; None = the fuel ran out (it never does, see Proofs) *)
Fixpoint iter_spans (fuel : nat) (y z : Z) (begb endb : pt) : option (list (Z * Z)) :=
  if iter_valid (px begb, y, z) endb then
    match fuel with
    | O => None
    | S f =>
      let y' := w32 (y + 1) in
      let '(y2, z2) := if py endb <? y' then (py begb, w32 (z + 1)) else (y', z) in
      match iter_spans f y2 z2 begb endb with
      | Some r => Some ((y, z) :: r)
      | None => None
      end
    end
  else Some [].
Definition span_blocks (begx endx y z : Z) : list pt :=
  map (fun i => (begx + Z.of_nat i, y, z)) (seq 0 (Z.to_nat (endx - begx + 1))).

(* all blocks a geometry touches, in the order GetVoxels / PutVoxels visit them *)
Definition geom_blocks (c : cfg) (g : geom) : res (list pt) :=
  match chunk_pt (goff g) (bsz c), chunk_pt (g_end g) (bsz c) with
  | Ok bb, Ok eb =>
    let fuel := S (Z.to_nat ((py eb - py bb + 1) * (pz eb - pz bb + 1))) in
    match iter_spans fuel (py bb) (pz bb) bb eb with
    | Some sp => Ok (flat_map (fun yz => span_blocks (px bb) (px eb) (fst yz) (snd yz)) sp)
    | None => Err
    end
  | Panic, _ => Panic
  | _, Panic => Panic
  | _, _ => Err
  end.

(* ---- ROI: roi.Iterator.InsideFast, a sweep over the sorted spans ---- *)
Fixpoint inside_fast (b : pt) (spans : list span) : list span * bool :=
  match spans with
  | [] => ([], false)
  | s :: tl =>
    if pz b <? sz s then (spans, false)
    else if sz s <? pz b then inside_fast b tl
    else if py b <? sy s then (spans, false)
    else if sy s <? py b then inside_fast b tl
    else if px b <? sx0 s then (spans, false)
    else if px b <=? sx1 s then (spans, true)
    else inside_fast b tl
  end.
(* the blocks of a visiting order that the sweep reports inside *)
Fixpoint roi_filter (spans : list span) (blocks : list pt) : list (pt * bool) :=
  match blocks with
  | [] => []
  | b :: t => let '(cur, ins) := inside_fast b spans in (b, ins) :: roi_filter cur t
  end.
Definition roi_flags (roi : option (list span)) (blocks : list pt) : list (pt * bool) :=
  match roi with
  | None => map (fun b => (b, true)) blocks
  | Some spans => roi_filter spans blocks
  end.

(* ---- extents ---- *)
Definition extents : Type := option (pt * pt).
Definition adjust_points (e : extents) (s t : pt) : extents :=
  match e with
  | None => Some (s, t)
  | Some (mn, mx) => Some (pmin mn s, pmax mx t)
  end.

Record state : Type := ST { blocks : bstore; ext : extents }.
Definition st0 : state := ST [] None.

Definition rem32 (a b : Z) : Z := Z.rem a b.
(* dvid.BlockAligned *)
Definition block_aligned (c : cfg) (g : geom) : bool :=
  let s := goff g in let e := g_end g in let bs := bsz c in
  (rem32 (px s) (px bs) =? 0) && (rem32 (w32 (px e + 1)) (px bs) =? 0) &&
  (rem32 (py s) (py bs) =? 0) && (rem32 (w32 (py e + 1)) (py bs) =? 0) &&
  (rem32 (pz s) (pz bs) =? 0) && (rem32 (w32 (pz e + 1)) (pz bs) =? 0).

(* PutVoxels for a 3d subvolume (POST raw/0_1_2): every visited block inside the ROI is loaded
   (or a background block made), overwritten where it meets the request and stored *)
Fixpoint put_blocks (c : cfg) (g : geom) (stride : Z) (data : bytes) (st : bstore) (bl : list (pt * bool)) : res bstore :=
  match bl with
  | [] => Ok st
  | (b, ins) :: t =>
    if ins then
      let blk := match st_get st b with Some v => v | None => background_block c end in
      match write_block c g stride data blk b with
      | Ok blk' => put_blocks c g stride data (st_put st b blk') t
      | Err => Err
      | Panic => Panic
      end
    else put_blocks c g stride data st t
  end.

Definition post_raw (c : cfg) (s : state) (off size : pt) (data : bytes) (roi : option (list span)) : res state :=
  let g := G Vol3d off (px size) (py size) (pz size) in
  if negb ((1 <=? px size) && (1 <=? py size) && (1 <=? pz size)) then Err else
  if negb (zlen data =? bpv c * g_numvoxels g) then Err else
  if (px (bsz c) =? 0) || (py (bsz c) =? 0) || (pz (bsz c) =? 0) then Panic else
  if negb (block_aligned c g) then Err else
  match geom_blocks c g with
  | Ok bl =>
    match put_blocks c g (gw g * bpv c) data (blocks s) (roi_flags roi bl) with
    | Ok st' => Ok (ST st' (adjust_points (ext s) (goff g) (g_end g)))
    | Err => Err
    | Panic => Panic
    end
  | Err => Err
  | Panic => Panic
  end.

(* GetVoxels: only the blocks present in the store are visited.  A block outside a given ROI
   reads as a background block, or, with ?attenuation=n, as its bytes shifted right by n
   (readScaledBlock as repaired by repo_patches/C17-5-fix.diff; it refuses voxels wider than one
   byte, the error is logged and the block skipped). *)
Definition scaled_block (att : Z) (v : bytes) : bytes := map (fun x => N.shiftr x (Z.to_N att)) v.
Fixpoint get_blocks_into (c : cfg) (g : geom) (stride : Z) (st : bstore) (att : Z) (data : bytes) (bl : list (pt * bool)) : res bytes :=
  match bl with
  | [] => Ok data
  | (b, ins) :: t =>
    match st_get st b with
    | None => get_blocks_into c g stride st att data t
    | Some v =>
      if negb ins && negb (att =? 0) && negb (bpv c =? 1) then get_blocks_into c g stride st att data t else
      let blk := if ins then v else if att =? 0 then background_block c else scaled_block att v in
      match read_block c g stride data blk b with
      | Ok d => get_blocks_into c g stride st att d t
      | e => e
      end
    end
  end.

(* fill = true: the repaired NewVoxels (repo_patches/C17-1-fix.diff) presets the buffer to the
   background byte like BackgroundBlock does; fill = false: the code as it stands (zeros) *)
Definition new_buffer (fill : bool) (c : cfg) (g : geom) : bytes :=
  if fill then bg_tile c (g_numvoxels g) else repeat 0%N (Z.to_nat (bpv c * g_numvoxels g)).

Definition get_raw_att (fill : bool) (c : cfg) (s : state) (g : geom) (roi : option (list span)) (att : Z) : res bytes :=
  if negb (1 <=? g_numvoxels g) then Err else
  match geom_blocks c g with
  | Ok bl => get_blocks_into c g (gw g * bpv c) (blocks s) att (new_buffer fill c g) (roi_flags roi bl)
  | Err => Err
  | Panic => Panic
  end.

Definition get_raw (fill : bool) (c : cfg) (s : state) (g : geom) (roi : option (list span)) : res bytes :=
  get_raw_att fill c s g roi 0.

(* GET blocks/<coord>/<span>: stored blocks or background; the code before C17-4 repeated the
   Background byte in every byte whatever the voxel width *)
Definition blocks_background (c : cfg) : bytes :=
  if bgfix c then background_block c else repeat (bgv c) (Z.to_nat (block_bytes c)).
Definition get_blocks (c : cfg) (s : state) (start : pt) (span : Z) : bytes :=
  flat_map (fun i => match st_get (blocks s) (px start + Z.of_nat i, py start, pz start) with
                     | Some v => if zlen v =? block_bytes c then v else blocks_background c
                     | None => blocks_background c
                     end) (seq 0 (Z.to_nat span)).

(* POST blocks/<coord>/<span>.  fixed = false is the code as it stands: it takes Prod(BlockSize)
   BYTES per block whatever the voxel width and leaves the extents alone; fixed = true is the
   repaired code (repo_patches/C17-2-fix.diff, C17-3-fix.diff) *)
Fixpoint post_blocks_loop (n : nat) (per : nat) (st : bstore) (b : pt) (data : bytes) : res bstore :=
  match n with
  | O => Ok st
  | S n' =>
    if Nat.ltb (length data) per then Err
    else post_blocks_loop n' per (st_put st b (firstn per data)) (w32 (px b + 1), py b, pz b) (skipn per data)
  end.
Definition post_blocks (fixed : bool) (c : cfg) (s : state) (start : pt) (span : Z) (data : bytes) : res state :=
  let per := Z.to_nat (if fixed then block_bytes c else block_voxels c) in
  if span <? 1 then Err else
  match post_blocks_loop (Z.to_nat span) per (blocks s) start data with
  | Ok st' =>
    Ok (ST st' (if fixed
                then adjust_points (ext s) (block_min (bsz c) start)
                                   (block_max (bsz c) (w32 (px start + w32 (span - 1)), py start, pz start))
                else ext s))
  | Err => Err
  | Panic => Panic
  end.

(* GET subvolblocks / specificblocks: the stored blocks among the requested coordinates *)
Definition stored_blocks (s : state) (bl : list pt) : list (pt * bytes) :=
  flat_map (fun b => match st_get (blocks s) b with Some v => [(b, v)] | None => [] end) bl.
