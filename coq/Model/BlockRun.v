(* Model.BlockRun: case type, array generators and checkers used by Run/cases_C09.v (no proofs).
   Label arrays are described by a few paint operations and expanded here (Coq parses
   literals slowly); the driver expands the same description in Go. *)
From DV Require Import Base.Prelude Base.Int Base.BitPack Model.Block Model.BlockViews Gen.Consts.
Local Open Scope N_scope.

(* ---- array descriptions ---- *)
Inductive paint :=
| PFill (l : N)
| PBox (x0 y0 z0 x1 y1 z1 : N) (l : N)
  (* label = base + stride * (i mod m), i = linear index inside the box, x fastest (mod 2^64) *)
| PCyc (x0 y0 z0 x1 y1 z1 : N) (base stride m : N)
  (* label = pal[hash(cell) mod |pal|], cells of edge cs *)
| PHash (x0 y0 z0 x1 y1 z1 : N) (cs seed : N) (pal : list N).

Definition in_box (x0 y0 z0 x1 y1 z1 x y z : N) : bool :=
  (x0 <=? x) && (x <? x1) && (y0 <=? y) && (y <? y1) && (z0 <=? z) && (z <? z1).

Definition paint_at (p : paint) (x y z : N) : option N :=
  match p with
  | PFill l => Some l
  | PBox x0 y0 z0 x1 y1 z1 l => if in_box x0 y0 z0 x1 y1 z1 x y z then Some l else None
  | PCyc x0 y0 z0 x1 y1 z1 base stride m =>
    if in_box x0 y0 z0 x1 y1 z1 x y z then
      let i := ((z - z0) * (y1 - y0) + (y - y0)) * (x1 - x0) + (x - x0) in
      Some (N.land (base + stride * (i mod m)) 18446744073709551615)
    else None
  | PHash x0 y0 z0 x1 y1 z1 cs seed pal =>
    if in_box x0 y0 z0 x1 y1 z1 x y z then
      let c := x / cs + 64 * (y / cs) + 4096 * (z / cs) in
      let h := N.land ((c + seed) * 2654435761) 4294967295 in
      match nth_N pal ((N.shiftr h 16) mod N.of_nat (length pal)) with Some l => Some l | None => Some 0 end
    else None
  end.

Fixpoint paints_at (ps : list paint) (x y z : N) (cur : N) : N :=
  match ps with
  | [] => cur
  | p :: r => paints_at r x y z (match paint_at p x y z with Some l => l | None => cur end)
  end.

Definition expand (nx ny nz : N) (ps : list paint) : list N :=
  flat_map (fun z => flat_map (fun y => map (fun x => paints_at ps x y z 0) (nseq nx)) (nseq ny)) (nseq nz).

(* ---- digest of a label array (the driver computes the same over Go's output) ---- *)
Definition digest (a : list N) : N :=
  fold_left (fun h l => N.land (h * 1099511628211 + l + 1) 18446744073709551615) a 14695981039346656037.

(* ---- sorted association lists for map-valued results ---- *)
Fixpoint ins_assoc (p : N * N) (l : list (N * N)) : list (N * N) :=
  match l with
  | [] => [p]
  | q :: r => if fst p <=? fst q then p :: l else q :: ins_assoc p r
  end.
Definition sort_assoc (l : list (N * N)) : list (N * N) := fold_right ins_assoc [] l.
Definition assoc_eqb (a b : list (N * N)) : bool :=
  list_eqb (fun p q => (fst p =? fst q) && (snd p =? snd q)) a b.

Definition res_eqb {A} (eqb : A -> A -> bool) (a b : res A) : bool :=
  match a, b with
  | Ok x, Ok y => eqb x y
  | Err, Err => true
  | Panic, Panic => true
  | _, _ => false
  end.

Definition run_eqb (a b : run) : bool :=
  let '(x, y, z, l) := a in let '(x', y', z', l') := b in
  Z.eqb x x' && Z.eqb y y' && Z.eqb z z' && (l =? l').
Definition run_leb (a b : run) : bool :=
  let '(x, y, z, _) := a in let '(x', y', z', _) := b in
  if Z.ltb z z' then true else if Z.ltb z' z then false
  else if Z.ltb y y' then true else if Z.ltb y' y then false else Z.leb x x'.
Fixpoint ins_run (p : run) (l : list run) : list run :=
  match l with
  | [] => [p]
  | q :: r => if run_leb p q then p :: l else q :: ins_run p r
  end.
Definition sort_runs (l : list run) : list run := fold_right ins_run [] l.

(* runs written as a flat list x y z length ... in the cases files *)
Fixpoint unflat (l : list Z) : list run :=
  match l with
  | x :: y :: z :: n :: r => (x, y, z, Z.to_N n) :: unflat r
  | _ => []
  end.

Definition bools_digest (m : list bool) : N := digest (map (fun b : bool => if b then 1 else 0) m).

(* ---- cases ---- *)
Definition pt := (N * N * N)%type.

Inductive c09case :=
(* MakeBlock on an array; Go: class+bytes of MarshalBinary, digest of MakeLabelVolume, digest after
   Unmarshal(Marshal), sample points with Value and GetPointLabels results, CalcNumLabels(nil) sorted *)
| CEnc (gx gy gz : N) (ps : list paint)
       (go_bytes : res bytes) (go_dec go_dec2 go_wlv : N) (pts : list pt) (go_val go_pt : list N)
       (go_counts : list (N * N))
(* SubvolumeToBlock on a volume (wx wy wz) at block offset (ox oy oz) *)
| CSub (wx wy wz ox oy oz gx gy gz : N) (ps : list paint) (go_bytes : res bytes) (go_dec : N)
(* WriteRLEs of one positioned block for a label set; Go: sorted runs *)
| CRle (gx gy gz : N) (ps : list paint) (lbls : list N) (bx by_ bz : Z) (go_bytes : res bytes)
       (go_runs : res (list run))
(* WriteBinaryBlocks of one positioned block; Go: bytes written, digest of the mask ReceiveBinaryBlocks returns *)
| CBin (gx gy gz : N) (ps : list paint) (main : N) (lbls : list N) (bx by_ bz : Z) (go_bytes : res bytes)
       (go_out : res bytes) (go_mask : res N)
(* model -> Go: bytes built by the driver's own encoder with table [tbl]; Go: UnmarshalBinary then
   MakeLabelVolume digest, Value at sample points *)
| CDec (gx gy gz : N) (ps : list paint) (tbl : list N) (bytes_in : bytes) (go_dec : res N)
       (pts : list pt) (go_val : list N)
(* independence of a parsed block from the bytes it was parsed from: Go parses block A from a buffer,
   overwrites the buffer, and decodes A again (go_after1); marshals A, parses a clone from those
   bytes, overwrites the clone's label table in place, and decodes A again (go_after2) *)
| CAlias (gx gy gz : N) (ps : list paint) (go_after1 go_after2 : res N)
(* WriteRLEs over a stream of positioned blocks (in the given order); Go: each block's bytes, sorted runs *)
| CRleM (gx gy gz : N) (blocks : list (list paint * (Z * Z * Z))) (lbls : list N)
        (go_blocks : list (res bytes)) (go_runs : res (list run))
(* WriteBinaryBlocks over a stream; Go: bytes written, and per block ReceiveBinaryBlocks returned its
   voxel offset and the digest of its mask *)
| CBinM (gx gy gz : N) (blocks : list (list paint * (Z * Z * Z))) (main : N) (lbls : list N)
        (go_blocks : list (res bytes)) (go_out : res bytes) (go_masks : res (list (Z * Z * Z * N))).

Definition arr_at (a : list N) (nx ny : N) (p : pt) : res N :=
  let '(x, y, z) := p in opt_res (nth_N a ((z * ny + y) * nx + x)).

Definition true_counts (a : list N) : list (N * N) := sort_assoc (count_labels a []).

Definition distinct_ge2 (a : list N) : bool :=
  match a with [] => false | l :: r => existsb (fun v => negb (v =? l)) r end.

Definition with_block (go_bytes : res bytes) (f : block -> bool) : bool :=
  match go_bytes with
  | Ok bs => match unmarshal bs with Ok b => f b | _ => false end
  | _ => false
  end.

Fixpoint go_block_list (gbs : list (res bytes)) (cs : list (Z * Z * Z)) : option (list (block * (Z * Z * Z))) :=
  match gbs, cs with
  | [], [] => Some []
  | Ok bs :: gr, c :: cr =>
    match unmarshal bs, go_block_list gr cr with
    | Ok b, Some r => Some ((b, c) :: r)
    | _, _ => None
    end
  | _, _ => None
  end.

(* the world of a multi-block case: label at an absolute voxel, from the block arrays *)
Definition world_label (gx gy gz : N) (arrs : list (list N * (Z * Z * Z))) (x y z : Z) : option N :=
  let nx := Z.of_N (8 * gx) in let ny := Z.of_N (8 * gy) in let nz := Z.of_N (8 * gz) in
  let bx := (x / nx)%Z in let by_ := (y / ny)%Z in let bz := (z / nz)%Z in
  match find (fun e : list N * (Z * Z * Z) => let '(_, (cx, cy, cz)) := e in Z.eqb cx bx && Z.eqb cy by_ && Z.eqb cz bz) arrs with
  | Some (a, _) => nth_N a (Z.to_N (((z - bz * nz) * ny + (y - by_ * ny)) * nx + (x - bx * nx)))
  | None => None
  end.

(* every voxel of every run is foreground, runs of a row do not overlap (list sorted by z, y, x),
   and together they have as many voxels as there are foreground voxels: exact coverage *)
Fixpoint runs_cover (gx gy gz : N) (arrs : list (list N * (Z * Z * Z))) (lbls : list N) (rs : list run)
         (prev : option run) : bool :=
  match rs with
  | [] => true
  | r :: rest =>
    let '(x, y, z, l) := r in
    forallb (fun i => match world_label gx gy gz arrs (x + Z.of_N i) y z with Some v => mem v lbls | None => false end) (nseq l)
    && match prev with
       | Some (px, py, pz, pl) => negb (Z.eqb py y && Z.eqb pz z) || Z.leb (px + Z.of_N pl) x
       | None => true
       end
    && runs_cover gx gy gz arrs lbls rest (Some r)
  end.

(* implementation output = model output *)
Definition model_ok (c : c09case) : bool :=
  match c with
  | CEnc gx gy gz ps go_bytes go_dec go_dec2 go_wlv pts go_val go_pt go_counts =>
    let a := expand (8 * gx) (8 * gy) (8 * gz) ps in
    match go_bytes with
    | Ok bs =>
      with_block go_bytes (fun b =>
        res_eqb bytes_eqb (match encode (b_labels b) a gx gy gz with Ok b' => Ok (marshal b') | Err => Err | Panic => Panic end) (Ok bs)
        && res_eqb N.eqb (match decode b with Ok d => Ok (digest d) | Err => Err | Panic => Panic end) (Ok go_dec)
        && (go_dec2 =? go_dec)
        && (go_wlv =? go_dec)     (* WriteLabelVolume streams what MakeLabelVolume returns *)
        && list_eqb (res_eqb N.eqb) (map (fun p => let '(x, y, z) := p in value_at b x y z) pts) (map Ok go_val)
        && list_eqb (res_eqb N.eqb) (map (fun p => let '(x, y, z) := p in point_label b x y z) pts) (map Ok go_pt)
        && res_eqb assoc_eqb (match calc_num_labels b with Ok d => Ok (sort_assoc d) | Err => Err | Panic => Panic end) (Ok go_counts))
    | Err => is_err (encode_canon a (8 * gx) (8 * gy) (8 * gz) 0 0 0 gx gy gz)
    | Panic => is_panic (encode_canon a (8 * gx) (8 * gy) (8 * gz) 0 0 0 gx gy gz)
    end
  | CSub wx wy wz ox oy oz gx gy gz ps go_bytes go_dec =>
    let vol := expand wx wy wz ps in
    match go_bytes with
    | Ok bs =>
      with_block go_bytes (fun b =>
        res_eqb bytes_eqb (match encode_at (b_labels b) vol wx wy wz ox oy oz gx gy gz with
                           | Ok b' => Ok (marshal b') | Err => Err | Panic => Panic end) (Ok bs)
        && res_eqb N.eqb (match decode b with Ok d => Ok (digest d) | Err => Err | Panic => Panic end) (Ok go_dec))
    | Err => is_err (encode_canon vol wx wy wz ox oy oz gx gy gz)
    | Panic => is_panic (encode_canon vol wx wy wz ox oy oz gx gy gz)
    end
  | CRle gx gy gz ps lbls bx by_ bz go_bytes go_runs =>
    with_block go_bytes (fun b =>
      res_eqb (list_eqb run_eqb)
              (match write_rles true b lbls bx by_ bz with Ok r => Ok (sort_runs r) | Err => Err | Panic => Panic end)
              go_runs)
  | CBin gx gy gz ps main lbls bx by_ bz go_bytes go_out go_mask =>
    with_block go_bytes (fun b =>
      res_eqb bytes_eqb (write_binary b main lbls bx by_ bz) go_out
      && match go_out with
         | Ok o =>
           match o with
           | [] => true
           | _ => res_eqb N.eqb (match read_binary o with
                                 | Ok (_, _, _, _, _, m) => Ok (bools_digest m) | Err => Err | Panic => Panic end) go_mask
           end
         | _ => true
         end)
  | CAlias gx gy gz ps go_after1 go_after2 =>
    (* values are immutable in the model: a block never changes after it was parsed *)
    let d := digest (expand (8 * gx) (8 * gy) (8 * gz) ps) in
    res_eqb N.eqb go_after1 (Ok d) && res_eqb N.eqb go_after2 (Ok d)
  | CRleM gx gy gz blocks lbls go_blocks go_runs =>
    match go_block_list go_blocks (map snd blocks) with
    | Some bl => res_eqb (list_eqb run_eqb)
                   (match write_rles_multi bl lbls None [] [] with Ok r => Ok (sort_runs r) | Err => Err | Panic => Panic end)
                   go_runs
    | None => false
    end
  | CBinM gx gy gz blocks main lbls go_blocks go_out go_masks =>
    match go_block_list go_blocks (map snd blocks) with
    | Some bl => res_eqb bytes_eqb (write_binary_multi bl main lbls false) go_out
    | None => false
    end
  | CDec gx gy gz ps tbl bytes_in go_dec pts go_val =>
    let a := expand (8 * gx) (8 * gy) (8 * gz) ps in
    res_eqb bytes_eqb (match encode tbl a gx gy gz with Ok b' => Ok (marshal b') | Err => Err | Panic => Panic end) (Ok bytes_in)
    && match unmarshal bytes_in with
       | Ok b => res_eqb N.eqb (match decode b with Ok d => Ok (digest d) | Err => Err | Panic => Panic end) go_dec
                 && list_eqb (res_eqb N.eqb) (map (fun p => let '(x, y, z) := p in value_at b x y z) pts) (map Ok go_val)
       | Err => is_err go_dec
       | Panic => is_panic go_dec
       end
  end.

(* the property evaluated on what the implementation returned.
   0 holds; 1 panic; 2 decode(encode a) differs from a; 3 unmarshal(marshal) changed the block;
   4 value at a point differs; 5 counts differ; 6 an encode/view call failed on legal input;
   (7 retired: odd sub-block counts, repaired by C09-2-fix);
   8 run-length view differs; 9 binary view differs; 10 streamed decode (WriteLabelVolume) differs;
   11 a parsed block changed when the bytes it came from, or a clone of it, were overwritten *)
Definition legal_size (gx gy gz : N) : bool :=
  (2 <=? gx) && (gx <=? 128) && (2 <=? gy) && (gy <=? 128) && (2 <=? gz) && (gz <=? 128).

Definition spec_class (c : c09case) : nat :=
  match c with
  | CEnc gx gy gz ps go_bytes go_dec go_dec2 go_wlv pts go_val go_pt go_counts =>
    let a := expand (8 * gx) (8 * gy) (8 * gz) ps in
    match go_bytes with
    | Panic => 1%nat
    | Err => if legal_size gx gy gz then 6%nat else 0%nat
    | Ok _ =>
      if negb (go_dec =? digest a) then 2%nat
      else if negb (go_dec2 =? digest a) then 3%nat
      else if negb (go_wlv =? digest a) then 10%nat
      else if negb (list_eqb (res_eqb N.eqb) (map (arr_at a (8 * gx) (8 * gy)) pts) (map Ok go_val)) then 4%nat
      else if negb (list_eqb (res_eqb N.eqb) (map (arr_at a (8 * gx) (8 * gy)) pts) (map Ok go_pt)) then 4%nat
      else if negb (assoc_eqb (true_counts a) go_counts) then 5%nat
      else 0%nat
    end
  | CSub wx wy wz ox oy oz gx gy gz ps go_bytes go_dec =>
    let vol := expand wx wy wz ps in
    match go_bytes with
    | Panic => 1%nat
    | Err =>
      if legal_size gx gy gz && (ox + 8 * gx <=? wx) && (oy + 8 * gy <=? wy) && (oz + 8 * gz <=? wz) then 6%nat
      else 0%nat
    | Ok _ =>
      match crop vol wx wy ox oy oz gx gy gz with
      | Ok a => if go_dec =? digest a then 0%nat else 2%nat
      | _ => 6%nat
      end
    end
  | CRle gx gy gz ps lbls bx by_ bz go_bytes go_runs =>
    let a := expand (8 * gx) (8 * gy) (8 * gz) ps in
    match go_runs with
    | Panic => 1%nat
    | Err => 6%nat
    | Ok r => if res_eqb (list_eqb run_eqb)
                         (match rles_ref a gx gy gz lbls bx by_ bz with Ok x => Ok (sort_runs x) | Err => Err | Panic => Panic end)
                         (Ok r) then 0%nat else 8%nat
    end
  | CBin gx gy gz ps main lbls bx by_ bz go_bytes go_out go_mask =>
    let a := expand (8 * gx) (8 * gy) (8 * gz) ps in
    match go_out, go_mask with
    | Panic, _ | _, Panic => 1%nat
    | Err, _ => 6%nat
    | Ok [], _ => if existsb (fun l => mem l lbls) a then 9%nat else 0%nat
    | Ok _, Ok m => if m =? bools_digest (map (fun l => mem l lbls) a) then 0%nat else 9%nat
    | Ok _, Err => 9%nat
    end
  | CAlias gx gy gz ps go_after1 go_after2 =>
    let d := digest (expand (8 * gx) (8 * gy) (8 * gz) ps) in
    match go_after1, go_after2 with
    | Panic, _ | _, Panic => 1%nat
    | Ok d1, Ok d2 => if (d1 =? d) && (d2 =? d) then 0%nat else 11%nat
    | _, _ => 6%nat
    end
  | CRleM gx gy gz blocks lbls go_blocks go_runs =>
    let arrs := map (fun e : list paint * (Z * Z * Z) => (expand (8 * gx) (8 * gy) (8 * gz) (fst e), snd e)) blocks in
    match go_runs with
    | Panic => 1%nat
    | Err => 6%nat
    | Ok rs =>
      let total := fold_left (fun acc r => acc + snd r) rs 0 in
      let fgcount := fold_left (fun acc e => acc + N.of_nat (length (filter (fun v => mem v lbls) (fst e)))) arrs 0 in
      if runs_cover gx gy gz arrs lbls rs None && (total =? fgcount) then 0%nat else 8%nat
    end
  | CBinM gx gy gz blocks main lbls go_blocks go_out go_masks =>
    let nx := 8 * gx in let ny := 8 * gy in let nz := 8 * gz in
    let expect := flat_map (fun e : list paint * (Z * Z * Z) =>
                    let a := expand nx ny nz (fst e) in
                    let '(bx, by_, bz) := snd e in
                    if existsb (fun l => mem l lbls) a
                    then [((bx * Z.of_N nx)%Z, (by_ * Z.of_N ny)%Z, (bz * Z.of_N nz)%Z, bools_digest (map (fun l => mem l lbls) a))]
                    else []) blocks in
    match go_out, go_masks with
    | Panic, _ | _, Panic => 1%nat
    | Err, _ => 6%nat
    | Ok _, Err => match expect with [] => 0%nat | _ => 9%nat end
    | Ok _, Ok ms =>
      if list_eqb (fun p q : Z * Z * Z * N => let '(a1, b1, c1, d1) := p in let '(a2, b2, c2, d2) := q in
                                               Z.eqb a1 a2 && Z.eqb b1 b2 && Z.eqb c1 c2 && (d1 =? d2)) ms expect
      then 0%nat else 9%nat
    end
  | CDec gx gy gz ps tbl bytes_in go_dec pts go_val =>
    let a := expand (8 * gx) (8 * gy) (8 * gz) ps in
    match go_dec with
    | Panic => 1%nat
    | Err => 6%nat
    | Ok d => if negb (d =? digest a) then 2%nat
              else if negb (list_eqb (res_eqb N.eqb) (map (arr_at a (8 * gx) (8 * gy)) pts) (map Ok go_val)) then 4%nat
              else 0%nat
    end
  end.

Fixpoint classify_from (i : nat) (l : list c09case) : list (nat * nat) :=
  match l with
  | [] => []
  | c :: r => let k := spec_class c in
              if Nat.eqb k 0 then classify_from (S i) r else (i, k) :: classify_from (S i) r
  end.
Definition c09_spec_fail (l : list c09case) : list (nat * nat) := classify_from 0 l.
Definition c09_model_mismatch (l : list c09case) : list nat := find_idx (fun c => negb (model_ok c)) l.
