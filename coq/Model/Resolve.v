(* Model.Resolve: datastore/repo_local.go — invalidateAncestors, findCandidates, findMatch
   (the code after the repair recorded in known_findings.json) and find_match_old, the
   resolver as it stood before, kept for the refutation theorems. *)
From DV Require Import Base.Prelude Model.Dag.
Local Open Scope N_scope.

Inductive rres :=
| RFound (u : V) (x : N)   (* value x, stored at version u *)
| RNone                    (* nothing visible (never written, or deleted) *)
| RConflict                (* returned error: several unsuperseded live values *)
| RFuel.                   (* recursion budget exhausted: excluded by the theorems *)

Section Resolve.
Variable par : V -> list V.
Variable ent : V -> option entry.

(* invalidateAncestors(kvv, v): marks = versions whose kvvNode.invalid is set *)
Fixpoint inval (fuel : nat) (marks : list V) (v : V) : list V :=
  match fuel with
  | O => marks
  | S f =>
    fold_left (fun m p =>
      match ent p with
      | Some _ => if mem p m then m else inval f (p :: m) p
      | None => inval f m p
      end) (par v) marks
  end.

(* findCandidates(kvv, v, found): state = (marks, found) *)
Fixpoint collect (fi fuel : nat) (st : list V * list V) (v : V) : list V * list V :=
  match fuel with
  | O => st
  | S f =>
    match ent v with
    | Some _ => if mem v (fst st) then st else (inval fi (fst st) v, v :: snd st)
    | None => fold_left (fun s p => collect fi f s p) (par v) st
    end
  end.

Definition live_of (marks found : list V) : list V :=
  filter (fun u => negb (mem u marks) && is_val (ent u)) (nodup N.eq_dec found).

(* findMatch(kvv, v) *)
Definition find_match (fi fuel : nat) (marks0 : list V) (v : V) : rres * list V :=
  let '(marks, found) := collect fi fuel (marks0, []) v in
  (match live_of marks found with
   | [] => RNone
   | [u] => match ent u with Some (Val x) => RFound u x | _ => RNone end
   | _ => RConflict
   end, marks).

Definition read (fi fuel : nat) (v : V) : rres := fst (find_match fi fuel [] v).

(* ---- the resolver before the repair (foundKV/foundV: last assigned wins; an inner merge in
   conflict aborts the whole read).  Result of a visit: (outcome, marks). *)
Inductive ores := OKv (u : V) (e : entry) | ONil | OErr.

Fixpoint find_match_old (fi fuel : nat) (marks : list V) (v : V) : ores * list V :=
  match fuel with
  | O => (OErr, marks)
  | S f =>
    match ent v with
    | Some e =>
      if mem v marks then (ONil, marks)
      else let marks' := inval fi marks v in
           (match e with Tomb => ONil | Val _ => OKv v e end, marks')
    | None =>
      match par v with
      | [] => (ONil, marks)
      | [p] => find_match_old fi f marks p
      | ps =>
        (* visit every parent in order; remember the last live match and the set of matches *)
        let step := fun (acc : option (option (V * entry) * list V) * list V) p =>
          match acc with
          | (None, m) => (None, m)                       (* an inner error already aborted *)
          | (Some (last, fvs), m) =>
            match find_match_old fi f m p with
            | (OErr, m') => (None, m')
            | (OKv u (Val x), m') => (Some (Some (u, Val x), u :: fvs), m')
            | (_, m') => (Some (last, fvs), m')
            end
          end in
        match fold_left step ps (Some (None, []), marks) with
        | (None, m) => (OErr, m)
        | (Some (last, fvs), m) =>
          let surv := filter (fun u => negb (mem u m)) (nodup N.eq_dec fvs) in
          match surv, last with
          | [], _ => (ONil, m)
          | [_], Some (u, e) => (OKv u e, m)
          | [_], None => (OErr, m)
          | _, _ => (OErr, m)
          end
        end
      end
    end
  end.

Definition read_old (fi fuel : nat) (v : V) : rres :=
  match fst (find_match_old fi fuel [] v) with
  | OKv u (Val x) => RFound u x
  | OKv _ Tomb => RNone
  | ONil => RNone
  | OErr => RConflict
  end.

End Resolve.

(* ---- executable specification, independent of the resolver: the frontier of entry-bearing
   versions among the ancestors-or-self of v ---- *)
Section Spec.
Variable par : V -> list V.
Variable ent : V -> option entry.

(* ancestors-or-self by fuelled closure *)
Fixpoint anc_list (fuel : nat) (v : V) : list V :=
  match fuel with
  | O => [v]
  | S f => v :: flat_map (anc_list f) (par v)
  end.
Definition ancs (fuel : nat) (v : V) : list V := nodup N.eq_dec (anc_list fuel v).
(* proper ancestors *)
Definition pancs (fuel : nat) (v : V) : list V := nodup N.eq_dec (flat_map (anc_list fuel) (par v)).

Definition has (u : V) : bool := match ent u with Some _ => true | None => false end.

Definition frontier_list (fuel : nat) (v : V) : list V :=
  let A := filter has (ancs fuel v) in
  filter (fun u => negb (existsb (fun w => mem u (pancs fuel w)) A)) A.

Definition frontier_read (fuel : nat) (v : V) : rres :=
  match filter (fun u => is_val (ent u)) (frontier_list fuel v) with
  | [] => RNone
  | [u] => match ent u with Some (Val x) => RFound u x | _ => RNone end
  | _ => RConflict
  end.
End Spec.

Definition rres_eqb (a b : rres) : bool :=
  match a, b with
  | RFound u x, RFound u' x' => (u =? u') && (x =? x')
  | RNone, RNone => true
  | RConflict, RConflict => true
  | RFuel, RFuel => true
  | _, _ => false
  end.
