(* Model.KV: the ordered byte-level key-value store as DVID uses it (storage/badger/badger.go):
   an association list sorted by bytes.Compare, the badger iterator idiom
   "Seek(lo); for Valid(); Next()", and the store-level operations whose effect depends only on
   key layout: Put / Delete under a versioned context, getKeyVersions, RawRangeQuery, DeleteAll,
   DeleteDataInstance, and the instance id generator of datastore/repo_local.go.
   Definitions only. *)
From DV Require Import Base.Prelude Base.Int Base.Lex Gen.Consts Model.Keys.
Local Open Scope N_scope.

Definition kv := (bytes * bytes)%type.
Definition store := list kv.

(* txn.Set / txn.Delete / txn.Get on a sorted store *)
Fixpoint kv_set (k v : bytes) (s : store) : store :=
  match s with
  | [] => [(k, v)]
  | (k', v') :: r =>
    match lex_compare k k' with
    | Lt => (k, v) :: s
    | Eq => (k, v) :: r
    | Gt => (k', v') :: kv_set k v r
    end
  end.

Fixpoint kv_del (k : bytes) (s : store) : store :=
  match s with
  | [] => []
  | (k', v') :: r =>
    match lex_compare k k' with
    | Lt => s
    | Eq => r
    | Gt => (k', v') :: kv_del k r
    end
  end.

Fixpoint kv_get (k : bytes) (s : store) : option bytes :=
  match s with
  | [] => None
  | (k', v') :: r =>
    match lex_compare k k' with
    | Lt => None
    | Eq => Some v'
    | Gt => kv_get k r
    end
  end.

Fixpoint drop_while {A} (f : A -> bool) (l : list A) : list A :=
  match l with
  | [] => []
  | x :: r => if f x then drop_while f r else l
  end.
Fixpoint take_while {A} (f : A -> bool) (l : list A) : list A :=
  match l with
  | [] => []
  | x :: r => if f x then x :: take_while f r else []
  end.

(* it.Seek(lo): position at the first key >= lo; the rest of the store follows *)
Definition seek (lo : bytes) (s : store) : store := drop_while (fun e => lex_ltb (fst e) lo) s.

(* for it.Seek(lo); it.Valid(); it.Next() { if bytes.Compare(k, hi) > 0 { break } ... } *)
Definition scan (lo hi : bytes) (s : store) : store :=
  take_while (fun e => lex_leb (fst e) hi) (seek lo s).

(* RawRangeQuery(kStart, kEnd): key-value pairs in store order *)
Definition raw_range_query (lo hi : bytes) (s : store) : store := scan lo hi s.

(* getKeyVersions: for it.Seek(prefix); it.ValidForPrefix(prefix); it.Next() *)
Definition get_key_versions (i : N) (tk : bytes) (s : store) : list bytes :=
  let p := unversioned_prefix i tk in
  map fst (take_while (fun e => prefixb p (fst e)) (seek p s)).

(* repaired getKeyVersions (repo_patches/C06-1-fix): only keys that are exactly
   prefix ++ version ++ client ++ marker, i.e. entries of this TKey and of no longer one *)
Definition get_key_versions_exact (i : N) (tk : bytes) (s : store) : list bytes :=
  filter (fun k => Nat.eqb (length k) (length (unversioned_prefix i tk) + suffix_size))
         (get_key_versions i tk s).

(* a versioned context: data instance, version, client (always 0 in this code base) *)
Record vctx := { cx_instance : N; cx_version : N; cx_client : N }.

(* BadgerDB.Put with a VersionedCtx: txn.Set(key, v); txn.Delete(tombstoneKey) *)
Definition put (cx : vctx) (tk v : bytes) (s : store) : store :=
  kv_del (tombstone_key (cx_instance cx) (cx_version cx) (cx_client cx) tk)
         (kv_set (construct_data_key (cx_instance cx) (cx_version cx) (cx_client cx) tk) v s).

(* BadgerDB.Delete with a VersionedCtx: txn.Delete(key); txn.Set(tombstoneKey, EmptyValue) *)
Definition delete (cx : vctx) (tk : bytes) (s : store) : store :=
  kv_set (tombstone_key (cx_instance cx) (cx_version cx) (cx_client cx) tk) []
         (kv_del (construct_data_key (cx_instance cx) (cx_version cx) (cx_client cx) tk) s).

(* BadgerDB.DeleteAll: every key met by the scan of [minKey, maxKey] is deleted *)
Definition delete_scan (range : bytes * bytes) (s : store) : store :=
  fold_left (fun acc e => kv_del (fst e) acc) (scan (fst range) (snd range) s) s.
Definition delete_all_versioned (i : N) (s : store) : store := delete_scan (delete_all_range_versioned i) s.
Definition delete_all_unversioned (i : N) (s : store) : store := delete_scan (delete_all_range_unversioned_fixed i) s.
(* storage.DeleteDataInstance: DeleteAll(NewDataContext(data, 0)); a *DataContext does not
   implement VersionedCtx, so the KeyRange branch runs *)
Definition delete_data_instance (i : N) (s : store) : store := delete_all_unversioned i s.

(* ---- the code before the repairs, kept for the refutations ---- *)

(* KeyRange without C06-3-fix *)
Definition delete_data_instance_wrapping (i : N) (s : store) : store :=
  delete_scan (delete_all_range_unversioned i) s.

(* DeleteAll without C06-1-fix: wb.Delete(item.Key()) keeps a slice of the iterator's buffer.
   A badger iterator without value prefetch cycles through two Item structs whose key buffers
   are overwritten in place by it.Next() (y.SafeCopy), so at wb.Flush() every queued delete
   shows the key that its buffer held last: the last fetched key of the same parity.  The loop
   fetches the in-range keys, the first key beyond the range and one prefetched key more.
   Faithful when all fetched keys have the same length (no reallocation, no stale tail);
   otherwise the model declines (None). *)
Fixpoint last_of_parity (l : list bytes) (idx : nat) (a b : option bytes) : option bytes * option bytes :=
  match l with
  | [] => (a, b)
  | k :: r => if Nat.even idx then last_of_parity r (S idx) (Some k) b
              else last_of_parity r (S idx) a (Some k)
  end.
Definition delete_all_aliased (range : bytes * bytes) (s : store) : option store :=
  let items := seek (fst range) s in
  let n := length (take_while (fun e => lex_leb (fst e) (snd range)) items) in
  let fetched := map fst (firstn (n + 2) items) in
  match fetched with
  | [] => Some s
  | k0 :: _ =>
    if forallb (fun k => Nat.eqb (length k) (length k0)) fetched then
      let '(a, b) := last_of_parity fetched 0 None None in
      let del o (acc : store) := match o with Some k => kv_del k acc | None => acc end in
      Some (match n with
            | O => s
            | 1%nat => del a s
            | _ => del b (del a s)
            end)
    else None
  end.

(* raw writes, the vocabulary of every batch *)
Inductive write := WSet (k v : bytes) | WDel (k : bytes).
Definition write_key (w : write) : bytes := match w with WSet k _ => k | WDel k => k end.
Definition apply_write (s : store) (w : write) : store :=
  match w with WSet k v => kv_set k v s | WDel k => kv_del k s end.
Definition apply_writes (ws : list write) (s : store) : store := fold_left apply_write ws s.

(* everything stored under one data instance *)
Definition of_instance (i : N) (k : bytes) : bool := prefixb (n_dataKeyPrefix :: iid_bytes i) k.
Definition instance_slice (i : N) (s : store) : store := filter (fun e => of_instance i (fst e)) s.

(* operations addressed to one data instance *)
Inductive iop :=
| IPut (v c : N) (tk value : bytes)          (* Put under (instance, v, c) *)
| IDelete (v c : N) (tk : bytes)             (* Delete under (instance, v, c) *)
| IDeleteAllVersioned                        (* DeleteAll(VersionedCtx) *)
| IDeleteInstance                            (* storage.DeleteDataInstance *)
| IBatch (tks : list (N * N * bytes * option bytes)).  (* any batch of puts (Some) / deletes (None) *)

Definition apply_iop (i : N) (o : iop) (s : store) : store :=
  match o with
  | IPut v c tk value => put {| cx_instance := i; cx_version := v; cx_client := c |} tk value s
  | IDelete v c tk => delete {| cx_instance := i; cx_version := v; cx_client := c |} tk s
  | IDeleteAllVersioned => delete_all_versioned i s
  | IDeleteInstance => delete_data_instance i s
  | IBatch l =>
    fold_left (fun acc '(v, c, tk, ov) =>
                 let cx := {| cx_instance := i; cx_version := v; cx_client := c |} in
                 match ov with Some value => put cx tk value acc | None => delete cx tk acc end) l s
  end.
Definition apply_iops (i : N) (ops : list iop) (s : store) : store :=
  fold_left (fun acc o => apply_iop i o acc) ops s.

(* ---- instance id generator: repoManager.newInstanceID, "sequential" mode ----
   curid = m.instanceID; m.instanceID++ (uint32); repeat while curid is in m.iids.
   [taken] are the ids of m.iids; the loop is bounded by fuel (out of fuel = None). *)
Fixpoint new_instance_id (fuel : nat) (next : N) (taken : list N) : option (N * N) :=
  match fuel with
  | O => None
  | S f =>
    let cur := next in
    let next' := id_succ next in
    if existsb (N.eqb cur) taken then new_instance_id f next' taken else Some (cur, next')
  end.

(* the part of the repo manager that decides which instance a request can address *)
Record mgr := { m_next : N; m_taken : list N; m_store : store }.

Inductive mop :=
| MNew                                       (* create a data instance *)
| MOp (i : N) (o : iop)                      (* an operation on an existing instance *)
(* a restart (loadMetadata): the persisted counter is kept; m.iids is rebuilt from the instances
   the loaded repos still list — [live], some of the ids handed out so far.  An instance whose
   deletion had saved the repo metadata but not yet removed its key-values (repoT.deleteData is
   interrupted between r.save() and storage.DeleteDataInstance) is not in [live] while its keys
   are still in the store. *)
| MRestart (live : list N).

(* an operation is only routed to an instance that was created before *)
Definition mgr_step (m : mgr) (o : mop) : option mgr :=
  match o with
  | MNew =>
    match new_instance_id (S (length (m_taken m))) (m_next m) (m_taken m) with
    | Some (id, next') => Some {| m_next := next'; m_taken := id :: m_taken m; m_store := m_store m |}
    | None => None
    end
  | MOp i op =>
    if existsb (N.eqb i) (m_taken m)
    then Some {| m_next := m_next m; m_taken := m_taken m; m_store := apply_iop i op (m_store m) |}
    else None
  | MRestart live =>
    if forallb (fun i => existsb (N.eqb i) (m_taken m)) live
    then Some {| m_next := m_next m; m_taken := live; m_store := m_store m |}
    else None
  end.

(* loadMetadata as seeded change C06-r2m1 had it: the counter recomputed from the loaded instances *)
Definition restart_recomputed (m : mgr) (live : list N) : mgr :=
  {| m_next := fold_left (fun a i => N.max a (i + 1)) live 1; m_taken := live; m_store := m_store m |}.

Fixpoint mgr_run (m : mgr) (ops : list mop) : option mgr :=
  match ops with
  | [] => Some m
  | o :: r => match mgr_step m o with Some m' => mgr_run m' r | None => None end
  end.
