(* Model.Refine: the abstract versioned core (Model.Core: keys and value ids in N, entries per
   (key, version)) related to the byte-level store of one data instance (Model.Keys / Model.KV /
   Model.KVRange).  Definitions only.

   Parameters: the instance id [i], an encoding [enc] of abstract keys into TKeys, an encoding
   [venc] of abstract value ids into stored bytes.  Client id 0 as everywhere in this code base. *)
From DV Require Import Base.Prelude Base.Int Base.Lex Gen.Consts
     Model.Dag Model.Resolve Model.Core Model.Copy Model.Keys Model.KV Model.KVRange.
From Coq Require Import Sorting.Sorted.
Local Open Scope N_scope.

Section Refine.
Variable i : N.
Variable enc : N -> bytes.
Variable venc : N -> bytes.

(* the two storage keys an abstract (key, version) can occupy *)
Definition dkey (k : N) (v : V) : bytes := construct_data_key i v 0 (enc k).
Definition tkey (k : N) (v : V) : bytes := tombstone_key i v 0 (enc k).
Definition rcx (v : V) : vctx := {| cx_instance := i; cx_version := v; cx_client := 0 |}.

(* what the byte store must hold for an abstract entry: the value under the data key and no
   tombstone; the (empty-valued) tombstone and no data key; neither *)
Definition entry_matches (e : option entry) (d t : option bytes) : Prop :=
  match e with
  | Some (Val x) => d = Some (venc x) /\ t = None
  | Some Tomb => d = None /\ t = Some []
  | None => d = None /\ t = None
  end.

Definition store_sorted (s : store) : Prop :=
  StronglySorted (fun a b : kv => lex_lt (fst a) (fst b)) s.

(* (1) the abstraction relation *)
Record Refines (c : core) (s : store) : Prop := {
  rf_sorted : store_sorted s;
  (* per (key, version): the same entry on both sides; in particular never both keys *)
  rf_entries : forall k v, id_ok v ->
               entry_matches (ent_of c k v) (kv_get (dkey k v) s) (kv_get (tkey k v) s);
  (* abstract entries only live at versions that fit the 32-bit version id *)
  rf_versions : forall k v, ent_of c k v <> None -> id_ok v;
  (* every stored key of the instance comes from enc *)
  rf_keys : forall e, In e s -> of_instance i (fst e) = true ->
            exists k v, id_ok v /\ (fst e = dkey k v \/ fst e = tkey k v)
}.

(* (3) the byte-level effect of an API-level operation; the gate (committed versions refuse
   writes) is the abstract machine's *)
Definition bstep (c : core) (o : op) (s : store) : store :=
  match o with
  | OPut k v x => if writable c v then put (rcx v) (enc k) (venc x) s else s
  | ODel k v => if writable c v then delete (rcx v) (enc k) s else s
  | _ => s
  end.
Definition brun (ops : list op) (c : core) (s : store) : core * store :=
  fold_left (fun cs o => (fst (step (fst cs) o), bstep (fst cs) o (snd cs))) ops (c, s).

(* (4) the resolver handed to the byte-level reads: Model.Resolve.read over the per-version entry
   list built from the stored keys (version from the key, value/tombstone from the marker; the
   value id is irrelevant to the choice).  It returns the data key of the chosen version. *)
Definition key_version (k : bytes) : V := match version_from_key (Some k) with Ok v => v | _ => 0 end.
Definition key_entry (k : bytes) : V * entry := (key_version k, if is_tombstone k then Tomb else Val 0).

Definition best_core (par : V -> list V) (fuel : nat) (v : V) (ks : list bytes) : res (option bytes) :=
  match read par (kvv_of (map key_entry ks)) fuel fuel v with
  | RFound u _ => Ok (find (fun k => (key_version k =? u) && negb (is_tombstone k)) ks)
  | RNone => Ok None
  | RConflict => Err
  | RFuel => Panic
  end.
Definition best_of_core (c : core) (v : V) : list bytes -> res (option bytes) :=
  best_core (parents_of (dag c)) (fuel_of c) v.

(* an abstract read as a point read reports it: the value bytes, or nothing (not found, deleted,
   and — GetBestKeyVersion dropping the error — unresolved conflict) *)
Definition point_of (r : rres) : option bytes :=
  match r with RFound _ x => Some (venc x) | _ => None end.

(* ... and as a range read reports a list of them: the first conflict fails the whole range *)
Fixpoint range_of_core (l : list (N * rres)) : res (list kv) :=
  match l with
  | [] => Ok []
  | (k, RFound _ x) :: r => res_bind (range_of_core r) (fun l' => Ok ((enc k, venc x) :: l'))
  | (_, RNone) :: r => range_of_core r
  | (_, RConflict) :: _ => Err
  | (_, RFuel) :: _ => Panic
  end.

End Refine.

(* (5) copying an instance at the byte level: RawRangeQuery over KeyRange src, UpdateInstance
   (ChangeDataKeyInstance: copy(k[1:5], dst.Bytes())) on every key, RawPut *)
Definition change_instance (k : bytes) (j : N) : res bytes := overwrite k 1 (iid_bytes j).
Definition copy_instance (src dst : N) (s : store) : store :=
  fold_left (fun acc e => match change_instance (fst e) dst with
                          | Ok k' => kv_set k' (snd e) acc
                          | _ => acc
                          end)
            (scan (fst (key_range src)) (snd (key_range src)) s) s.

(* ---- Round 4: keys-only listings, the keyvalue endpoints, DeleteRange as an abstract operation ---- *)

(* a keys-only range read of a list of abstract GETs: the keys that have a value, the first
   unresolved conflict fails the whole listing *)
Fixpoint keys_of_core (l : list (N * rres)) : res (list N) :=
  match l with
  | [] => Ok []
  | (k, RFound _ _) :: r => res_bind (keys_of_core r) (fun l' => Ok (k :: l'))
  | (_, RNone) :: r => keys_of_core r
  | (_, RConflict) :: _ => Err
  | (_, RFuel) :: _ => Panic
  end.
(* ... with values *)
Fixpoint vals_of_core (l : list (N * rres)) : res (list (N * N)) :=
  match l with
  | [] => Ok []
  | (k, RFound _ x) :: r => res_bind (vals_of_core r) (fun l' => Ok ((k, x) :: l'))
  | (_, RNone) :: r => vals_of_core r
  | (_, RConflict) :: _ => Err
  | (_, RFuel) :: _ => Panic
  end.

Definition res_map {A B} (f : A -> B) (r : res A) : res B :=
  match r with Ok a => Ok (f a) | Err => Err | Panic => Panic end.

(* the abstract keys that have an entry at some version (each once) *)
Definition core_keys (c : core) : list N := nodup N.eq_dec (map (fun e => fst (fst e)) (Core.store c)).

(* insertion sort of abstract keys by the byte order of their encodings *)
Fixpoint insert_by (enc : N -> bytes) (k : N) (l : list N) : list N :=
  match l with
  | [] => [k]
  | x :: r => match lex_compare (enc k) (enc x) with
              | Lt => k :: l
              | Eq => l
              | Gt => x :: insert_by enc k r
              end
  end.
Definition sort_by (enc : N -> bytes) (l : list N) : list N := fold_right (insert_by enc) [] l.

(* the abstract keys with an entry whose encoding lies in [lo, hi], ascending *)
Definition interval_keys (enc : N -> bytes) (c : core) (lo hi : bytes) : list N :=
  sort_by enc (filter (fun k => lex_leb lo (enc k) && lex_leb (enc k) hi) (core_keys c)).

(* the abstract answers *)
Definition abs_gets (c : core) (v : V) (ks : list N) : list (N * rres) := map (fun k => (k, get c k v)) ks.
Definition abs_keys_in_range (enc : N -> bytes) (c : core) (v : V) (lo hi : bytes) : res (list N) :=
  keys_of_core (abs_gets c v (interval_keys enc c lo hi)).
Definition abs_get_range (enc : N -> bytes) (c : core) (v : V) (lo hi : bytes) : res (list (N * N)) :=
  vals_of_core (abs_gets c v (interval_keys enc c lo hi)).

(* DeleteRange(v, [lo, hi]) on the abstract core: a tombstone at v for every key of the interval
   that reads as a value at v (nothing when a conflict stops the scan: see delete_range) *)
Definition core_with (c : core) (k : N) (v : V) (e : entry) : core :=
  {| next := next c; dag := dag c; nodes := nodes c; locked := locked c; Core.store := ((k, v), e) :: Core.store c |}.
Definition core_delete_keys (c : core) (v : V) (ks : list N) : core :=
  fold_left (fun c k => core_with c k v Tomb) ks c.
Definition core_delete_range (enc : N -> bytes) (c : core) (v : V) (lo hi : bytes) : res core :=
  res_map (core_delete_keys c v) (abs_keys_in_range enc c v lo hi).

(* keyvalue: abstract key n is the key string [kstr n] *)
Definition kv_enc (kstr : N -> bytes) (k : N) : bytes := kv_tkey (kstr k).
