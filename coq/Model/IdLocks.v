(* Model.IdLocks: the proof obligation on the generated lock table of the id-allocation sites
   (Gen/IdLocks.v, rewritten from the Go source by harness/cmd/gen/gen_idlocks.go).  Definitions only.

   The event machines of Model.IDs / Model.IDsR / Model.Persist treat newMutationID, newLabel, newLabels,
   the in-memory part of newRepoID / newUUID / newVersionID / newInstanceID as ONE atomic event each, and
   updateMaxLabel / updateBlockMaxLabel as events that each run under the mutex.  [path_ok] is that
   assumption, stated on a control-flow path of the real function. *)
From Coq Require Import String List Bool.
Import ListNotations.
From DV Require Import Gen.IdLocks.
Local Open Scope string_scope.

Definition smem (x : string) (l : list string) : bool := existsb (String.eqb x) l.

(* every access of a location in [locs] happens while [mu] is held: writes under Lock; reads under Lock, or
   (unless [strict]) under RLock; the mutex is taken and released in a well-bracketed way and is free at the end *)
Fixpoint under_mutex (mu : string) (locs : list string) (strict : bool) (evs : list iev) (ex sh : bool) : bool :=
  match evs with
  | [] => negb ex && negb sh
  | ILock m :: r => if String.eqb m mu then negb ex && negb sh && under_mutex mu locs strict r true sh
                    else under_mutex mu locs strict r ex sh
  | IUnlock m :: r => if String.eqb m mu then ex && under_mutex mu locs strict r false sh
                      else under_mutex mu locs strict r ex sh
  | IRLock m :: r => if String.eqb m mu then negb ex && negb sh && under_mutex mu locs strict r ex true
                     else under_mutex mu locs strict r ex sh
  | IRUnlock m :: r => if String.eqb m mu then sh && under_mutex mu locs strict r ex false
                       else under_mutex mu locs strict r ex sh
  | IRead l :: r => (if smem l locs then ex || (sh && negb strict) else true) && under_mutex mu locs strict r ex sh
  | IWrite l :: r => (if smem l locs then ex else true) && under_mutex mu locs strict r ex sh
  end.

(* all accesses of [locs] lie in ONE critical section: once an access has been made, no access follows a
   release of [mu] *)
Fixpoint one_section (mu : string) (locs : list string) (evs : list iev) (seen closed : bool) : bool :=
  match evs with
  | [] => true
  | IUnlock m :: r | IRUnlock m :: r =>
    one_section mu locs r seen (closed || (String.eqb m mu && seen))
  | IRead l :: r | IWrite l :: r =>
    if smem l locs then negb closed && one_section mu locs r true closed else one_section mu locs r seen closed
  | _ :: r => one_section mu locs r seen closed
  end.

Definition path_ok (p : string * string * list string * bool * list iev) : bool :=
  let '(_, mu, locs, atomic, evs) := p in
  under_mutex mu locs atomic evs false false && (negb atomic || one_section mu locs evs false false).

(* a site has at least one path on which it modifies a counter (the table is not empty of content) *)
Definition writes_counter (p : string * string * list string * bool * list iev) : bool :=
  let '(_, _, locs, _, evs) := p in
  existsb (fun e => match e with IWrite l => smem l locs && negb (String.eqb l "store") | _ => false end) evs.

Definition site_of (p : string * string * list string * bool * list iev) : string :=
  let '(n, _, _, _, _) := p in
  match index 0 "#" n with Some i => substring 0 i n | None => n end.

(* the sites property C12 names; each must be in the generated table with a path that writes its counter *)
Definition expected_id_sites : list string :=
  ["datastore.newInstanceID"; "datastore.newRepoID"; "datastore.newVersionID"; "datastore.newUUID";
   "datastore.newMutationID"; "labelmap.newLabel"; "labelmap.newLabels"; "labelmap.updateMaxLabel";
   "labelmap.updateBlockMaxLabel"].

Definition sites_present (tbl : list (string * string * list string * bool * list iev)) : bool :=
  forallb (fun n => existsb (fun p => String.eqb (site_of p) n && writes_counter p) tbl) expected_id_sites.

(* sites whose persisting Put is part of the exclusive section (location "store" guarded) *)
Definition persist_guarded (tbl : list (string * string * list string * bool * list iev)) : list string :=
  nodup string_dec (map site_of (filter (fun p => let '(_, _, locs, _, _) := p in smem "store" locs) tbl)).

(* is [mu] held exclusively just before event number k of the path *)
Fixpoint held_at (mu : string) (evs : list iev) (k : nat) (ex : bool) : bool :=
  match k, evs with
  | O, _ => ex
  | S k', ILock m :: r => held_at mu r k' (if String.eqb m mu then true else ex)
  | S k', IUnlock m :: r => held_at mu r k' (if String.eqb m mu then false else ex)
  | S k', _ :: r => held_at mu r k' ex
  | S _, [] => false
  end.


Definition expected_persist_guarded : list string :=
  ["datastore.newInstanceID"; "datastore.newMutationID"; "labelmap.newLabel"; "labelmap.newLabels";
   "labelmap.updateMaxLabel"; "labelmap.updateBlockMaxLabel"].

(* paths with a narrowed, removed or split critical section, or a Put outside a section that should hold it,
   fail the obligation; the last one (Put outside, not claimed) passes *)
Definition narrowed_paths_fail : Prop :=
  path_ok ("x#1", "m.mu", ["c"], true, [ILock "m.mu"; IRead "c"; IUnlock "m.mu"; IWrite "c"]) = false /\
  path_ok ("x#1", "m.mu", ["c"], true, [IRead "c"; IWrite "c"]) = false /\
  path_ok ("x#1", "m.mu", ["c"], true, [ILock "m.mu"; IRead "c"; IUnlock "m.mu"; ILock "m.mu"; IWrite "c"; IUnlock "m.mu"]) = false /\
  path_ok ("x#1", "m.mu", ["c"; "store"], true, [ILock "m.mu"; IRead "c"; IWrite "c"; IUnlock "m.mu"; IWrite "store"]) = false /\
  path_ok ("x#1", "m.mu", ["c"], true, [IRLock "m.mu"; IRead "c"; IRUnlock "m.mu"]) = false /\
  path_ok ("x#1", "m.mu", ["c"], true, [ILock "m.mu"; IRead "c"; IWrite "c"; IUnlock "m.mu"; IWrite "store"]) = true.

(* check-then-act in ONE exclusive section: whenever an in-memory counter is written, the same counter has been
   read since the exclusive lock was taken (the value stored is decided from a value seen under that lock, not
   from a snapshot taken under a lock that was released in between).  Store writes and the persist helpers'
   pseudo-locations are not counters. *)
Definition is_counter_loc (l : string) : bool :=
  negb (String.eqb l "store") && negb (prefix "persist" l).

(* the counters whose value, seen under the lock, may decide the value written to [l]: the counter itself; the
   per-version maximum MaxLabel[v] may also be set from the repo-wide maximum (newLabel / newLabels assign the
   label they have just drawn, which exceeds every per-version maximum) *)
Definition decided_from (l : string) : list string :=
  if String.eqb l "MaxLabel" then ["MaxLabel"; "MaxRepoLabel"] else [l].

Fixpoint write_rechecked (mu : string) (locs : list string) (evs : list iev) (ex : bool) (seen : list string) : bool :=
  match evs with
  | [] => true
  | ILock m :: r => if String.eqb m mu then write_rechecked mu locs r true [] else write_rechecked mu locs r ex seen
  | IUnlock m :: r => if String.eqb m mu then write_rechecked mu locs r false [] else write_rechecked mu locs r ex seen
  | IRead l :: r => write_rechecked mu locs r ex (if ex then l :: seen else seen)
  | IWrite l :: r =>
    (if smem l locs && is_counter_loc l then ex && existsb (fun d => smem d seen) (decided_from l) else true)
    && write_rechecked mu locs r ex seen
  | _ :: r => write_rechecked mu locs r ex seen
  end.

Definition path_rechecked (p : string * string * list string * bool * list iev) : bool :=
  let '(_, mu, locs, _, evs) := p in write_rechecked mu locs evs false [].

(* a path that writes a counter from a snapshot read under a released read lock fails the obligation *)
Definition stale_snapshot_path : string * string * list string * bool * list iev :=
  ("example.staleSnapshot", "mu", ["Max"; "store"], false,
   [IRLock "mu"; IRead "Max"; IRUnlock "mu"; ILock "mu"; IWrite "Max"; IWrite "store"; IUnlock "mu"]).
