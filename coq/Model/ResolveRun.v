(* Model.ResolveRun: case types and checkers for Run/cases_C01.v (no proofs). *)
From DV Require Import Base.Prelude Model.Dag Model.Resolve Model.Core.
Local Open Scope N_scope.

(* observed read: value id (and, when the hook reports it, the version it came from) *)
Inductive obs :=
| ObsVal (x : N) (u : option V)
| ObsNone
| ObsErr.

Definition obs_matches (o : obs) (r : rres) : bool :=
  match o, r with
  | ObsVal x None, RFound _ x' => x =? x'
  | ObsVal x (Some u), RFound u' x' => (x =? x') && (u =? u')
  | ObsNone, RNone => true
  | ObsErr, RConflict => true
  | _, _ => false
  end.

(* A point read over HTTP goes through VersionedCtx.GetBestKeyVersion, which reports an
   unresolved conflict as "no key" (the error of FindMatch is dropped when no k/v is returned):
   the request answers 404.  The property only demands that it does not succeed with a value. *)
Definition obs_matches_http (o : obs) (r : rres) : bool :=
  match o, r with
  | ObsNone, RConflict => true
  | ObsErr, RConflict => false
  | _, _ => obs_matches o r
  end.
(* what the property allows for a frontier result *)
Definition obs_allowed (o : obs) (r : rres) : bool :=
  match o, r with
  | ObsNone, RConflict => true
  | _, _ => obs_matches o r
  end.

Inductive oobs := OAccepted | ORefused | ORead (o : obs).

Inductive c01case :=
| CDag (g : dagl) (keys : list (V * entry)) (v : V) (fuel : nat) (o : obs)
| CHist (ops : list op) (observed : list oobs) (ranges : list (V * option (list (N * N))))
(* the same requests against an unversioned instance: instanceSelector evaluates them at the
   repo's root version whatever uuid they name, and applies no committed-node check *)
| CUnv (ops : list op) (observed : list oobs)
(* exhaustive placement sweep over one DAG with nodes 1..n: for every placement code
   p in [0,3^n) (digit i of p in base 3 = nothing / value 100+i / tombstone at node i+1) and
   every queried version v in 1..n, in that order, one observation code:
   0 = not found, 1 = error, 2+u = the value of version u *)
| CEnum (g : dagl) (n : nat) (codes : list N)
(* the full read path (real storage keys, VersionFromKey, kvVersions map, findMatch) over a DAG
   whose version ids are arbitrary, not in topological order: range-read path (VersionedKeyValue)
   and point-read path (GetBestKeyVersion) *)
| CDag2 (g : dagl) (keys : list (V * entry)) (v : V) (fuel : nat) (okv obest : obs).

Fixpoint place_entries (n : nat) (i : N) (p : N) : list (V * entry) :=
  match n with
  | O => []
  | S n' =>
    let d := p mod 3 in
    let rest := place_entries n' (i + 1) (p / 3) in
    if d =? 1 then (i, Val (100 + i)) :: rest
    else if d =? 2 then (i, Tomb) :: rest
    else rest
  end.

Definition code_of (r : rres) : N :=
  match r with RNone => 0 | RConflict => 1 | RFound u _ => 2 + u | RFuel => 1000 end.

Fixpoint enum_codes (f : V -> list (V * entry) -> rres) (n : nat) (np : nat) (p : N) : list N :=
  match np with
  | O => []
  | S np' =>
    map (fun v => code_of (f (N.of_nat v) (place_entries n 1 p))) (seq 1 n) ++ enum_codes f n np' (p + 1)
  end.

Fixpoint unv_trace (ops : list op) (st : list (N * entry)) : list out :=
  match ops with
  | [] => []
  | OPut k _ x :: r => Accepted :: unv_trace r ((k, Val x) :: st)
  | ODel k _ :: r => Accepted :: unv_trace r ((k, Tomb) :: st)
  | OGet k _ :: r =>
    Read (match assoc k st with Some (Val x) => RFound 1 x | _ => RNone end) :: unv_trace r st
  | OCommit _ a :: r => (if a then Accepted else Refused) :: unv_trace r st
  | OChild _ a :: r => (if a then Accepted else Refused) :: unv_trace r st
  end.

Definition out_matches_unv (o : oobs) (x : out) : bool :=
  match o, x with
  | OAccepted, Accepted => true
  | ORefused, Refused => true
  | ORead (ObsVal v _), Read (RFound _ v') => v =? v'
  | ORead ObsNone, Read RNone => true
  | _, _ => false
  end.

Definition out_matches (o : oobs) (x : out) : bool :=
  match o, x with
  | OAccepted, Accepted => true
  | ORefused, Refused => true
  | ORead ob, Read r => obs_matches_http ob r
  | _, _ => false
  end.

Fixpoint all2 {A B} (f : A -> B -> bool) (a : list A) (b : list B) : bool :=
  match a, b with
  | [], [] => true
  | x :: a', y :: b' => f x y && all2 f a' b'
  | _, _ => false
  end.

(* range read (keyrangevalues k0..k9) of the final state at version v: the keys with a visible
   value, ascending; any key in unresolved conflict makes the request fail *)
Definition range_keys : list N := [0;1;2;3;4;5;6;7;8;9].
Definition range_of (rd : N -> V -> rres) (v : V) : option (list (N * N)) :=
  if existsb (fun k => match rd k v with RConflict | RFuel => true | _ => false end) range_keys
  then None
  else Some (flat_map (fun k => match rd k v with RFound _ x => [(k, x)] | _ => [] end) range_keys).

Definition kvl_eqb (a b : list (N * N)) : bool :=
  list_eqb (fun x y => (fst x =? fst y) && (snd x =? snd y)) a b.
Definition range_matches (o e : option (list (N * N))) : bool :=
  match o, e with
  | Some a, Some b => kvl_eqb a b
  | None, None => true
  | _, _ => false
  end.
(* what the property allows: without a conflict exactly the point-read view; with one, anything
   that does not present a value for a conflicted key *)
Definition range_allowed (rd : N -> V -> rres) (v : V) (o : option (list (N * N))) : bool :=
  match range_of rd v, o with
  | Some b, Some a => kvl_eqb a b
  | Some _, None => false
  | None, None => true
  | None, Some a =>
    forallb (fun kx => match rd (fst kx) v with
                       | RFound _ x => snd kx =? x
                       | _ => false
                       end) a
  end.

Definition model_ok (c : c01case) : bool :=
  match c with
  | CDag g keys v fuel o => obs_matches o (read (parents_of g) (kvv_of keys) fuel fuel v)
  | CHist ops observed ranges =>
    all2 out_matches observed (trace ops core_init) &&
    let c := run ops core_init in
    forallb (fun vr => range_matches (snd vr) (range_of (get c) (fst vr))) ranges
  | CUnv ops observed => all2 out_matches_unv observed (unv_trace ops [])
  | CEnum g n codes =>
    list_eqb N.eqb codes
      (enum_codes (fun v keys => read (parents_of g) (kvv_of keys) (S n) (S n) v) n (3 ^ n) 0)
  | CDag2 g keys v fuel okv obest =>
    let r := read (parents_of g) (kvv_of keys) fuel fuel v in
    obs_matches okv r && obs_matches_http obest r
  end.

(* property-level oracle: every observed read equals the frontier read of the specification,
   computed without the resolver.  For histories the DAG and entries are those the accepted
   requests built. *)
Fixpoint hist_spec (ops : list op) (observed : list oobs) (c : core) : bool :=
  match ops, observed with
  | [], _ => true
  | o :: r, ob :: obr =>
    let ok := match o, ob with
              | OGet k v, ORead x =>
                obs_allowed x (frontier_read (parents_of (dag c)) (ent_of c k) (fuel_of c) v)
              | OGet _ _, _ => false
              | _, _ => true
              end in
    (* advance the state by what the server actually accepted *)
    let c' := match o, ob with
              | OPut _ _ _, ORefused | ODel _ _, ORefused => c
              | _, _ => fst (step c o)
              end in
    ok && hist_spec r obr c'
  | _ :: _, [] => false
  end.

Definition spec_class (c : c01case) : nat :=
  match c with
  | CDag g keys v fuel o =>
    if obs_allowed o (frontier_read (parents_of g) (kvv_of keys) fuel v) then 0%nat else 1%nat
  | CHist ops observed ranges =>
    if hist_spec ops observed core_init then
      (* the state the accepted requests built, read with the oracle *)
      let c := run ops core_init in
      let rd := fun k v => frontier_read (parents_of (dag c)) (ent_of c k) (fuel_of c) v in
      if forallb (fun vr => range_allowed rd (fst vr) (snd vr)) ranges then 0%nat else 3%nat
    else 1%nat
  | CUnv ops observed => if all2 out_matches_unv observed (unv_trace ops []) then 0%nat else 2%nat
  | CEnum g n codes =>
    if list_eqb N.eqb codes
         (enum_codes (fun v keys => frontier_read (parents_of g) (kvv_of keys) (S n) v) n (3 ^ n) 0)
    then 0%nat else 1%nat
  | CDag2 g keys v fuel okv obest =>
    let r := frontier_read (parents_of g) (kvv_of keys) fuel v in
    if obs_allowed okv r && obs_allowed obest r then 0%nat else 1%nat
  end.

Fixpoint classify_from (i : nat) (l : list c01case) : list (nat * nat) :=
  match l with
  | [] => []
  | c :: r => let k := spec_class c in
              if Nat.eqb k 0 then classify_from (S i) r else (i, k) :: classify_from (S i) r
  end.
Definition c01_spec_fail (l : list c01case) : list (nat * nat) := classify_from 0 l.
Definition c01_model_mismatch (l : list c01case) : list nat := find_idx (fun c => negb (model_ok c)) l.
