(* Model.CoreGate: the history machine of Model.Core with its data writes routed through the
   request gate of Model.Gate, instead of Core's built-in "refused exactly on committed versions".
   A data-type handler never looks at the lock itself: once past the gate the write is stored.
   Definitions only (Model.Core is not modified). *)
From Coq Require Import String List Bool.
From DV Require Import Base.Prelude Model.Dag Model.Resolve Model.Core Base.GateTypes Gen.Routes Model.Gate.
Import ListNotations.
Local Open Scope N_scope.

Definition with_entry (c : core) (k : N) (v : V) (e : entry) : core :=
  {| next := next c; dag := dag c; nodes := nodes c; locked := locked c;
     store := ((k, v), e) :: store c |}.

(* a put / delete arriving as POST / DELETE on endpoint keyword [kw] of an instance of datatype
   package [pkg] (versioned), in server mode [md], with or without the admin token *)
Definition gated_step (md : mode) (admin : bool) (pkg kw : string) (c : core) (o : op) : core * out :=
  match o with
  | OPut k v x =>
    if negb (mem v (nodes c)) then (c, Refused)            (* unknown uuid: MatchingUUID fails *)
    else match gate md admin (mem v (locked c)) true (RInst pkg kw) "post" with
         | Allow => (with_entry c k v (Val x), Accepted)
         | _ => (c, Refused)
         end
  | ODel k v =>
    if negb (mem v (nodes c)) then (c, Refused)
    else match gate md admin (mem v (locked c)) true (RInst pkg kw) "delete" with
         | Allow => (with_entry c k v Tomb, Accepted)
         | _ => (c, Refused)
         end
  | _ => step c o
  end.

Definition gated_run (md : mode) (admin : bool) (pkg kw : string) (ops : list op) (c : core) : core :=
  fold_left (fun c o => fst (gated_step md admin pkg kw c o)) ops c.
