(* Model.LabelMapRun: executable checkers used by Run/cases_C08.v (no proofs).
   A case is one proofreading history: geometry, the ingested layout, and per step the request,
   the server's answer class, and snapshots of every read endpoint (delta-encoded against the
   previous snapshot of the same version, or of the parent for a new version).
   [spec_class]  evaluates the PROPERTY on the observations alone: every endpoint must be the
                 function of (voxels read by blocks?supervoxels=true, mapping read by GET mapping)
                 that the statement of C08 names; plus conservation and isolation between snapshots.
   [model_ok]    runs Model.LabelMap.mstep on the same requests and compares what it predicts. *)
From DV Require Import Base.Prelude Model.Index Model.LabelMap.
From DV Require Model.Downres.
Local Open Scope N_scope.

(* ---------------- geometry ---------------- *)
Definition c3 := (N * N * N)%type.
Definition cx (p : c3) : nat := N.to_nat (fst (fst p)).
Definition cy (p : c3) : nat := N.to_nat (snd (fst p)).
Definition cz (p : c3) : nat := N.to_nat (snd p).

Record geom := { g_bs : N; g_dim : c3; g_lo : bool }.   (* block edge; blocks per axis; scale 1 observed *)
(* the geometry of the scale-1 volume: same blocks, half the edge *)
Definition ghalf (g : geom) : geom := {| g_bs := g_bs g / 2; g_dim := g_dim g; g_lo := g_lo g |}.
Definition gbs (g : geom) : nat := N.to_nat (g_bs g).
Definition gnx g : nat := (cx (g_dim g) * gbs g)%nat.
Definition gny g : nat := (cy (g_dim g) * gbs g)%nat.
Definition gnz g : nat := (cz (g_dim g) * gbs g)%nat.

(* block id used as key everywhere: bx + 1024 by + 1024^2 bz *)
Definition bid (bx by_ bz : nat) : N := N.of_nat bx + 1024 * N.of_nat by_ + 1048576 * N.of_nat bz.

Definition vol (A : Type) := list (list (list A)).    (* z, y, x *)
Definition vconst {A} (g : geom) (a : A) : vol A := repeat (repeat (repeat a (gnx g)) (gny g)) (gnz g).

Fixpoint map_range {A} (f : A -> A) (i n : nat) (l : list A) : list A :=
  match l with
  | [] => []
  | a :: r => match i with
              | S i' => a :: map_range f i' n r
              | O => match n with O => l | S n' => f a :: map_range f O n' r end
              end
  end.

Definition box := (c3 * c3 * N)%type.     (* origin, size, label *)
Definition paint_box {A} (v : vol A) (p d : c3) (a : A) : vol A :=
  map_range (map_range (map_range (fun _ => a) (cx p) (cx d)) (cy p) (cy d)) (cz p) (cz d) v.
Definition paint (v : vol N) (bs : list box) : vol N :=
  fold_left (fun v b => paint_box v (fst (fst b)) (snd (fst b)) (snd b)) bs v.

Definition vol_eqb {A} (eqb : A -> A -> bool) (a b : vol A) : bool :=
  list_eqb (list_eqb (list_eqb eqb)) a b.

Definition vget {A} (v : vol A) (x y z : nat) (d : A) : A := nth x (nth y (nth z v []) []) d.

(* label array of one block, x fastest *)
Definition seg {A} (i n : nat) (l : list A) : list A := firstn n (skipn i l).
Definition block_arr {A} (g : geom) (v : vol A) (bx by_ bz : nat) : list A :=
  let s := gbs g in
  concat (map (fun plane => concat (map (seg (bx * s) s) (seg (by_ * s) s plane))) (seg (bz * s) s v)).

(* write a block array back into a volume *)
Fixpoint chunks {A} (n : nat) (k : nat) (l : list A) : list (list A) :=
  match k with O => [] | S k' => firstn n l :: chunks n k' (skipn n l) end.
Fixpoint zip_range {A B} (f : A -> B -> A) (i : nat) (l : list A) (m : list B) : list A :=
  match l with
  | [] => []
  | a :: r => match i with
              | S i' => a :: zip_range f i' r m
              | O => match m with [] => l | b :: t => f a b :: zip_range f O r t end
              end
  end.
Definition set_block {A} (g : geom) (v : vol A) (bx by_ bz : nat) (arr : list A) : vol A :=
  let s := gbs g in
  let planes := chunks (s * s) s arr in
  zip_range (fun plane parr =>
               zip_range (fun row rarr => firstn (bx * s) row ++ rarr ++ skipn (bx * s + s) row)
                         (by_ * s) plane (chunks s s parr))
            (bz * s) v planes.

Definition all_blocks (g : geom) : list (nat * nat * nat) :=
  flat_map (fun bz => flat_map (fun by_ => map (fun bx => (bx, by_, bz)) (seq 0 (cx (g_dim g))))
                               (seq 0 (cy (g_dim g)))) (seq 0 (cz (g_dim g))).
Definition bid3 (b : nat * nat * nat) : N := bid (fst (fst b)) (snd (fst b)) (snd b).
Definition unbid (b : N) : nat * nat * nat :=
  (N.to_nat (b mod 1024), N.to_nat ((b / 1024) mod 1024), N.to_nat (b / 1048576)).

(* ---------------- observations ---------------- *)
Inductive tri := TOk (n : N) | TNotFound | TErr.
Definition tri_eqb (a b : tri) : bool :=
  match a, b with TOk x, TOk y => x =? y | TNotFound, TNotFound => true | TErr, TErr => true | _, _ => false end.

Definition runbox := (c3 * N * N * N)%type.       (* start, length, ny, nz: ny*nz stacked x-runs *)

Record bodyobs := {
  bo_size : tri;                              (* size/<l> *)
  bo_sizes : N;                               (* entry of sizes *)
  bo_svs : option (list N);                   (* supervoxels/<l>; None = 404 *)
  bo_svsizes : option (list (N * N));         (* supervoxel-sizes/<l> *)
  bo_index : option (list (key * N));         (* index/<l>, block ids *)
  bo_sparse : option (list runbox);           (* sparsevol/<l>?format=rles *)
  bo_coarse : option (list (c3 * N));         (* sparsevol-coarse/<l>: block runs *)
  bo_ssize : option (N * N * c3 * c3);        (* sparsevol-size/<l>: voxels, numblocks, min, max voxel *)
  so_size : tri;                              (* size/<l>?supervoxels=true *)
  so_sizes : N;                               (* entry of sizes?supervoxels=true *)
  so_map : N;                                 (* entry of mapping *)
  so_sparse : option (list runbox);           (* sparsevol/<l>?supervoxels=true *)
}.

Inductive delta (A : Type) := Same | New (a : A).
Arguments Same {A}.
Arguments New {A} a.

Record snapshot := {
  sn_ver : N;
  sn_base : option N;                 (* version whose latest observation the deltas refer to *)
  sn_readerr : N;                     (* number of endpoints that answered with an unexpected status *)
  sn_present : delta (list N);        (* block ids returned by blocks?supervoxels=true *)
  sn_sv : list box;                   (* blocks?supervoxels=true, painted over the base *)
  sn_rawsv : list box;                (* raw?supervoxels=true, painted over sn_sv's result *)
  sn_blkmapped : list box;            (* blocks (mapped), over the base *)
  sn_rawmapped : list box;            (* raw (mapped), over sn_blkmapped's result *)
  sn_labels : list (N * bodyobs);     (* new or changed per-label observations *)
  sn_mappings : delta (list (N * N));
  sn_maxlabel : tri;
  sn_listlabels : delta (list (N * N));
  sn_points : delta (list (c3 * (N * N * N * N)));   (* label/<pt>, ?supervoxels, labels, ?supervoxels *)
  sn_lo : list box;                   (* raw?scale=1&supervoxels=true, over the base (empty without g_lo) *)
  sn_lomapped : list box;             (* raw?scale=1, over the base *)
}.

Record obs := {
  ob_present : list N;
  ob_sv : vol N; ob_rawsv : vol N; ob_blkmapped : vol N; ob_rawmapped : vol N;
  ob_labels : list (N * bodyobs);
  ob_mappings : list (N * N);
  ob_maxlabel : tri;
  ob_listlabels : list (N * N);
  ob_points : list (c3 * (N * N * N * N));
  ob_readerr : N;
  ob_lo : vol N; ob_lomapped : vol N;
}.

Definition obs0 (g : geom) : obs :=
  {| ob_present := []; ob_sv := vconst g 0; ob_rawsv := vconst g 0; ob_blkmapped := vconst g 0;
     ob_rawmapped := vconst g 0; ob_labels := []; ob_mappings := []; ob_maxlabel := TErr;
     ob_listlabels := []; ob_points := []; ob_readerr := 0;
     ob_lo := vconst (ghalf g) 0; ob_lomapped := vconst (ghalf g) 0 |}.

Definition undelta {A} (d : delta A) (old : A) : A := match d with Same => old | New a => a end.

Definition apply_snap (base : obs) (s : snapshot) : obs :=
  let sv := paint (ob_sv base) (sn_sv s) in
  let bm := paint (ob_blkmapped base) (sn_blkmapped s) in
  {| ob_present := undelta (sn_present s) (ob_present base);
     ob_sv := sv; ob_rawsv := paint sv (sn_rawsv s);
     ob_blkmapped := bm; ob_rawmapped := paint bm (sn_rawmapped s);
     ob_labels := fold_left (fun m kv => aset N.eqb (fst kv) (snd kv) m) (sn_labels s) (ob_labels base);
     ob_mappings := undelta (sn_mappings s) (ob_mappings base);
     ob_maxlabel := sn_maxlabel s;
     ob_listlabels := undelta (sn_listlabels s) (ob_listlabels base);
     ob_points := undelta (sn_points s) (ob_points base);
     ob_readerr := sn_readerr s;
     ob_lo := paint (ob_lo base) (sn_lo s); ob_lomapped := paint (ob_lomapped base) (sn_lomapped s) |}.

(* ---------------- requests ---------------- *)
Definition run := (c3 * N)%type.          (* start voxel, length *)

Inductive req :=
| RIngest (v : N) (via : N) (blocks : list N) (groups : list (N * list N))
     (* via 0: POST blocks; 1: POST raw per block; 2: ingest-supervoxels + indices + mappings + maxlabel.
        content = the history's layout *)
| RWrite (v : N) (b0 nb : c3) (boxes : list box)     (* raw?mutate=true over a block-aligned region *)
| RMerge (v target : N) (merged : list N)
| RCleave (v body : N) (svs : list N)
| RSplitSV (v sv : N) (runs : list run) (split remain : N)
| RRenumber (v old new : N)
| RSplit (v body : N) (runs : list run)
| RCommit (v : N)
| RNewVersion (parent child : N)       (* newversion or branch *)
| RDagMerge (parent : N) (others : list N) (child : N)   (* POST repo/merge: [parent] is the first parent *)
| RRestart                              (* the server process is stopped and started again on its stores *)
| RObserve.

Record step := {
  st_req : req;
  st_ok : bool;                 (* the server answered 200 *)
  st_ret : list N;              (* labels it returned *)
  st_bad : bool;                (* the request violates a documented contract on purpose *)
  st_snaps : list snapshot;
}.

Record history := {
  h_geom : geom;
  h_layout : list box;
  h_steps : list step;
}.

(* ---------------- the property oracle on one observation ---------------- *)
Definition lab_obs (o : obs) (l : N) : option bodyobs := aget N.eqb l (ob_labels o).
Definition mp (o : obs) (s : N) : option N :=
  if s =? 0 then Some 0 else match lab_obs o s with Some b => Some (so_map b) | None => None end.

(* histogram of one label array as an index keyed (block, sv) *)
Definition block_hist (b : N) (arr : list N) : index :=
  map (fun sz => ((b, fst sz), Z.to_N (snd sz))) (hist arr 1 []).

Definition scan (g : geom) (v : vol N) : index :=
  flat_map (fun b => block_hist (bid3 b) (block_arr g v (fst (fst b)) (snd (fst b)) (snd b))) (all_blocks g).

Definition body_of (o : obs) (s : N) : N := match mp o s with Some l => l | None => 0 end.
Definition scan_body (o : obs) (sc : index) (l : N) : index :=
  filter (fun e => body_of o (ksv e) =? l) sc.

Definition set_eqb (a b : list N) : bool :=
  (Nat.eqb (length a) (length b)) && nodupb b && forallb (fun x => memN x b) a.
Definition idx_eqv (a b : index) : bool :=
  (Nat.eqb (length a) (length b)) && nodup_keys (keys_of b) && forallb (fun e => cnt b (kblock e) (ksv e) =? snd e) a.
Definition pairs_eqv (a b : list (N * N)) : bool :=
  (Nat.eqb (length a) (length b)) && nodupb (map fst b) &&
  forallb (fun e => match aget N.eqb (fst e) b with Some x => x =? snd e | None => false end) a.

Definition sv_sizes (i : index) : list (N * N) := map (fun s => (s, sv_count i s)) (supervoxels i).

Definition expand_runs (rs : list runbox) : list (nat * nat * nat * nat) :=   (* x y z len *)
  flat_map (fun r => let '(p, len, ny, nz) := r in
              flat_map (fun dz => map (fun dy => (cx p, (cy p + dy)%nat, (cz p + dz)%nat, N.to_nat len))
                                      (seq 0 (N.to_nat ny))) (seq 0 (N.to_nat nz))) rs.

(* cover counts: how many runs cover each voxel *)
Definition paint_runs (g : geom) (rs : list (nat * nat * nat * nat)) : vol N :=
  fold_left (fun v r => let '(x, y, z, len) := r in
                        map_range (map_range (map_range N.succ x len) y 1) z 1 v) rs (vconst g 0).
Definition runs_in_range (g : geom) (rs : list (nat * nat * nat * nat)) : bool :=
  forallb (fun r => let '(x, y, z, len) := r in
                    Nat.ltb 0 len && Nat.leb (x + len) (gnx g) && Nat.ltb y (gny g) && Nat.ltb z (gnz g)) rs.

Fixpoint forall2b {A B} (f : A -> B -> bool) (a : list A) (b : list B) : bool :=
  match a, b with
  | [], [] => true
  | x :: a', y :: b' => f x y && forall2b f a' b'
  | _, _ => false
  end.
Definition vol_forall2 {A B} (f : A -> B -> bool) (a : vol A) (b : vol B) : bool :=
  forall2b (forall2b (forall2b f)) a b.

(* the runs cover, once each, exactly the voxels whose supervoxel satisfies [inb] *)
Definition runs_cover (g : geom) (sv : vol N) (rs : list runbox) (inb : N -> bool) : bool :=
  let ex := expand_runs rs in
  runs_in_range g ex &&
  vol_forall2 (fun c s => c =? (if inb s then 1 else 0)) (paint_runs g ex) sv.

Definition blocks_of_coarse (rs : list (c3 * N)) : list N :=
  flat_map (fun r => map (fun i => bid (cx (fst r) + i) (cy (fst r)) (cz (fst r))) (seq 0 (N.to_nat (snd r)))) rs.

Definition min_list (l : list nat) : nat := fold_right Nat.min (match l with x :: _ => x | [] => O end) l.
Definition max_list (l : list nat) : nat := fold_right Nat.max O l.
Definition c3_eqb (a b : c3) : bool :=
  (fst (fst a) =? fst (fst b)) && (snd (fst a) =? snd (fst b)) && (snd a =? snd b).

(* class codes (0 = the property holds on this observation) *)
Definition K_INDEX := 1%nat.      (* size, sizes, supervoxels, supervoxel-sizes, index, sparsevol-size, listlabels, mappings *)
Definition K_SPARSE := 2%nat.     (* sparsevol, sparsevol-coarse *)
Definition K_VOXEL := 3%nat.      (* label/<pt>, labels, raw, blocks (mapped or supervoxels) *)
Definition K_CONSERVE := 4%nat.   (* an operation changed voxels it must not touch *)
Definition K_ISOLATION := 5%nat.  (* an operation was visible at another version *)
Definition K_REJECTED := 6%nat.   (* a refused request changed the state *)
Definition K_SUM := 7%nat.        (* body sizes do not sum to the non-zero voxel count, voxel in body 0 *)
Definition K_READ := 8%nat.       (* a read endpoint failed *)
Definition K_MAXLABEL := 9%nat.   (* maxlabel of a non-root version unset or below labels it inherits (was finding C08-maxlabel, repaired by C08-8-fix) *)
Definition K_MAXLABEL_ROOT := 10%nat.
Definition K_DAGMERGE := 12%nat.   (* at the child of a DAG merge node the mapping follows the first parent only while
                                      indices / blocks resolve over all parents (finding C08-dagmerge) *)
Definition K_RESTART := 13%nat.    (* a restart of the server changed what a version shows *)
Definition K_NEWLABELS := 14%nat.  (* an accepted split-supervoxel did not answer two distinct unused labels honouring the request *)
Definition K_LOWRES := 11%nat.     (* scale 1 is not the down-sampling of scale 0 / its mapped read is not the mapping of it *)

Definition first_nz (l : list nat) : nat :=
  fold_right (fun k acc => if Nat.eqb k 0 then acc else k) 0%nat l.
Definition chk (ok : bool) (k : nat) : nat := if ok then 0%nat else k.
(* classes reserved for recorded findings never hide another class found in the same history *)
Definition known_class (k : nat) : bool := Nat.eqb k K_DAGMERGE.
Definition pick (l : list nat) : nat :=
  match find (fun k => negb (Nat.eqb k 0) && negb (known_class k)) l with
  | Some k => k
  | None => first_nz l
  end.

Definition body_class (g : geom) (o : obs) (sc : index) (l : N) (b : bodyobs) : nat :=
  let want := scan_body o sc l in
  let size := num_voxels want in
  match want with
  | [] =>
    first_nz [ chk (tri_eqb (bo_size b) TNotFound && (bo_sizes b =? 0)) K_INDEX;
               chk (match bo_svs b, bo_svsizes b, bo_index b, bo_ssize b with None, None, None, None => true | _, _, _, _ => false end) K_INDEX;
               chk (match bo_sparse b, bo_coarse b with None, None => true | _, _ => false end) K_SPARSE ]
  | _ =>
    first_nz [ chk (tri_eqb (bo_size b) (TOk size) && (bo_sizes b =? size)) K_INDEX;
               chk (match bo_svs b with Some l' => set_eqb (supervoxels want) l' | None => false end) K_INDEX;
               chk (match bo_svsizes b with Some l' => pairs_eqv (sv_sizes want) l' | None => false end) K_INDEX;
               chk (match bo_index b with Some i => idx_eqv want i | None => false end) K_INDEX;
               chk (match bo_ssize b with
                    | Some (vx, nb, mn, mx) =>
                      let bl := map unbid (blocks_of want) in
                      let s := gbs g in
                      (vx =? size) && (nb =? N.of_nat (length bl)) &&
                      c3_eqb mn (N.of_nat (min_list (map (fun t => fst (fst t)) bl) * s),
                                 N.of_nat (min_list (map (fun t => snd (fst t)) bl) * s),
                                 N.of_nat (min_list (map snd bl) * s)) &&
                      c3_eqb mx (N.of_nat (max_list (map (fun t => fst (fst t)) bl) * s + s - 1),
                                 N.of_nat (max_list (map (fun t => snd (fst t)) bl) * s + s - 1),
                                 N.of_nat (max_list (map snd bl) * s + s - 1))
                    | None => false end) K_INDEX;
               chk (match bo_sparse b with
                    | Some rs => runs_cover g (ob_sv o) rs (fun s => negb (s =? 0) && (body_of o s =? l))
                    | None => false end) K_SPARSE;
               chk (match bo_coarse b with Some rs => set_eqb (blocks_of want) (blocks_of_coarse rs) | None => false end) K_SPARSE ]
  end.

Definition sv_class (g : geom) (o : obs) (sc : index) (s : N) (b : bodyobs) : nat :=
  let size := sv_count sc s in
  if size =? 0 then
    first_nz [ chk (match so_size b with TOk _ => false | _ => true end) K_INDEX;
               chk (so_sizes b =? 0) K_INDEX;
               chk (match so_sparse b with None => true | Some _ => false end) K_SPARSE ]
  else
    first_nz [ chk (tri_eqb (so_size b) (TOk size) && (so_sizes b =? size)) K_INDEX;
               chk (negb (so_map b =? 0)) K_SUM;
               chk (match so_sparse b with Some rs => runs_cover g (ob_sv o) rs (fun x => x =? s) | None => false end) K_SPARSE ].

Definition maxN (l : list N) : N := fold_right N.max 0 l.

(* ---------------- scale 1 (C14): each voxel is the vote of its eight children ---------------- *)
Fixpoint pairs {A} (l : list A) : list (A * A) :=
  match l with
  | a :: (b :: r) => (a, b) :: pairs r
  | _ => []
  end.
Definition downres_vol (v : vol N) : vol N :=
  map (fun zz : list (list N) * list (list N) =>
         map (fun yy : (list N * list N) * (list N * list N) =>
                let '((r00, r01), (r10, r11)) := yy in
                map (fun q : ((N * N) * (N * N)) * ((N * N) * (N * N)) =>
                       let '(((a, b), (c, d)), ((e, f), (g', h))) := q in
                       Downres.vote [a; b; c; d; e; f; g'; h])
                    (combine (combine (pairs r00) (pairs r01)) (combine (pairs r10) (pairs r11))))
             (combine (pairs (fst zz)) (pairs (snd zz))))
      (pairs v).

Definition obs_class (g : geom) (o : obs) (root : bool) : nat :=
  let sc := scan g (ob_sv o) in
  let live := supervoxels sc in
  let mapped_vol := map (map (map (body_of o))) (ob_sv o) in
  let bodies := nodupN (map (body_of o) live) in
  let sum := fold_right (fun lb acc => match bo_size (snd lb) with TOk n => n + acc | _ => acc end) 0 (ob_labels o) in
  first_nz
    ([ chk (ob_readerr o =? 0) K_READ;
       (* every stored supervoxel and every body it maps to has been queried *)
       chk (forallb (fun s => ahas N.eqb s (ob_labels o)) live && forallb (fun l => (l =? 0) || ahas N.eqb l (ob_labels o)) bodies) K_READ;
       chk (vol_eqb N.eqb (ob_sv o) (ob_rawsv o)) K_VOXEL;
       chk (vol_eqb N.eqb mapped_vol (ob_blkmapped o)) K_VOXEL;
       chk (vol_eqb N.eqb mapped_vol (ob_rawmapped o)) K_VOXEL;
       chk (forallb (fun pt => let '(p, (a, a_sv, m, m_sv)) := pt in
                               let s := vget (ob_sv o) (cx p) (cy p) (cz p) 0 in
                               (a_sv =? s) && (m_sv =? s) && (a =? body_of o s) && (m =? body_of o s)) (ob_points o)) K_VOXEL;
       chk (negb (memN 0 bodies)) K_SUM;
       chk (sum =? num_voxels sc) K_SUM;
       (* scale 1 is the down-sampling of the stored supervoxels; its mapped read is that pushed
          through the mapping *)
       chk (negb (g_lo g) || vol_eqb N.eqb (downres_vol (ob_sv o)) (ob_lo o)) K_LOWRES;
       chk (negb (g_lo g) || vol_eqb N.eqb (map (map (map (body_of o))) (ob_lo o)) (ob_lomapped o)) K_LOWRES ]
     ++ map (fun lb => if fst lb =? 0 then 0%nat else body_class g o sc (fst lb) (snd lb)) (ob_labels o)
     ++ map (fun lb => if fst lb =? 0 then 0%nat else sv_class g o sc (fst lb) (snd lb)) (ob_labels o)
     ++ [ (* mappings: agrees with mapping on live supervoxels, lists every live supervoxel mapped elsewhere *)
          chk (forallb (fun p => negb (memN (fst p) live) || (body_of o (fst p) =? snd p)) (ob_mappings o)
               && forallb (fun s => (body_of o s =? s) ||
                                    match aget N.eqb s (ob_mappings o) with Some l => l =? body_of o s | None => false end) live) K_INDEX;
          chk (pairs_eqv (map (fun l => (l, num_voxels (scan_body o sc l))) bodies) (ob_listlabels o)) K_INDEX;
          match live with
          | [] => 0%nat
          | _ => chk (match ob_maxlabel o with TOk m => maxN (live ++ bodies) <=? m | _ => false end)
                     (if root then K_MAXLABEL_ROOT else K_MAXLABEL)
          end ]).

(* ---------------- between snapshots ---------------- *)
Definition labels_same (a b : obs) : bool :=
  (* every label queried before answers the same *)
  forallb (fun lb => match aget N.eqb (fst lb) (ob_labels b) with
                     | Some x =>
                       let y := snd lb in
                       tri_eqb (bo_size x) (bo_size y) && (bo_sizes x =? bo_sizes y) && (so_map x =? so_map y)
                       && tri_eqb (so_size x) (so_size y) && (so_sizes x =? so_sizes y)
                       && match bo_index x, bo_index y with
                          | Some i, Some j => idx_eqv i j
                          | None, None => true
                          | _, _ => false
                          end
                     | None => false
                     end) (ob_labels a).

Definition obs_same (a b : obs) : bool :=
  set_eqb (ob_present a) (ob_present b) && vol_eqb N.eqb (ob_sv a) (ob_sv b) &&
  vol_eqb N.eqb (ob_blkmapped a) (ob_blkmapped b) && labels_same a b &&
  vol_eqb N.eqb (ob_lo a) (ob_lo b) && vol_eqb N.eqb (ob_lomapped a) (ob_lomapped b).

Definition req_version (r : req) : option N :=
  match r with
  | RIngest v _ _ _ | RWrite v _ _ _ | RMerge v _ _ | RCleave v _ _ | RSplitSV v _ _ _ _
  | RRenumber v _ _ | RSplit v _ _ => Some v
  | _ => None
  end.

(* which voxels an accepted operation may change *)
Definition conserve_ok (r : req) (a b : obs) : bool :=
  match r with
  | RMerge _ _ _ | RCleave _ _ _ | RRenumber _ _ _ => vol_eqb N.eqb (ob_sv a) (ob_sv b)
  | RSplitSV _ sv _ _ _ =>
    (* only voxels of the split supervoxel change, none becomes or stops being background *)
    vol_forall2 (fun x y => (x =? y) || ((x =? sv) && negb (y =? 0) && negb (y =? sv))) (ob_sv a) (ob_sv b)
  | RSplit _ _ _ => vol_forall2 (fun x y => (x =? 0) && (y =? 0) || negb (x =? 0) && negb (y =? 0)) (ob_sv a) (ob_sv b)
  | _ => true
  end.

(* the labels an accepted split-supervoxel answers: two distinct non-zero labels, the ones the
   client asked for where it asked, none of them a label that had voxels before *)
Definition vol_has (v : vol N) (l : N) : bool := existsb (existsb (existsb (N.eqb l))) v.
Definition ret_ok (r : req) (ret : list N) (before : obs) : bool :=
  match r, ret with
  | RSplitSV _ sv _ split remain, [a; b] =>
    negb (a =? b) && negb (a =? 0) && negb (b =? 0) && negb (a =? sv) && negb (b =? sv) &&
    ((split =? 0) || (a =? split)) && ((remain =? 0) || (b =? remain)) &&
    negb (vol_has (ob_sv before) a) && negb (vol_has (ob_sv before) b)
  | RSplitSV _ _ _ _ _, _ => false
  | _, _ => true
  end.

Record runst := { rs_obs : list (N * obs) }.

(* one snapshot: returns the class and the updated observation table *)
(* the inconsistency of finding C08-dagmerge: some body's index lists a supervoxel that the mapping
   read at the same version assigns to another body *)
Definition dag_signature (o : obs) : bool :=
  existsb (fun lb => match bo_index (snd lb) with
                     | Some i => existsb (fun e => negb (body_of o (ksv e) =? fst lb)) i
                     | None => false
                     end) (ob_labels o).

Definition snap_step (g : geom) (mc : list N) (st : step) (first : bool) (tbl : list (N * obs)) (s : snapshot)
  : nat * list (N * obs) :=
  let base := match sn_base s with
              | Some v => match aget N.eqb v tbl with Some o => o | None => obs0 g end
              | None => obs0 g
              end in
  let o := apply_snap base s in
  let prev := aget N.eqb (sn_ver s) tbl in
  let own := match req_version (st_req st) with Some v => (v =? sn_ver s) && first | None => false end in
  let k1 := obs_class g o (sn_ver s =? 0) in
  let k2 := if memN (sn_ver s) mc then 0%nat else   (* a merge child is not a copy of its first parent *)
            match prev with
            | None =>
              (* first observation of a version: its nearest observed ancestor is committed, so the
                 version shows exactly that, except for what a request at the version itself did *)
              match sn_base s with
              | Some bv =>
                if bv =? sn_ver s then 0%nat
                else if own then
                       if st_ok st then pick [chk (conserve_ok (st_req st) base o) K_CONSERVE;
                                               chk (ret_ok (st_req st) (st_ret st) base) K_NEWLABELS]
                       else chk (obs_same base o) K_REJECTED
                     else chk (obs_same base o) K_ISOLATION
              | None => 0%nat
              end
            | Some po =>
              if own then
                if st_ok st then pick [chk (conserve_ok (st_req st) po o) K_CONSERVE;
                                        chk (ret_ok (st_req st) (st_ret st) po) K_NEWLABELS]
                else chk (obs_same po o) K_REJECTED
              else chk (obs_same po o) (match st_req st with RRestart => K_RESTART | _ => K_ISOLATION end)
            end in
  let k := pick [k1; k2] in
  ((if memN (sn_ver s) mc && negb (Nat.eqb k 0) && dag_signature o then K_DAGMERGE else k),
   aset N.eqb (sn_ver s) o tbl).

Definition step_class (g : geom) (mc : list N) (acc : nat * list (N * obs)) (st : step) : nat * list (N * obs) :=
  let r := fold_left (fun (a : nat * bool * list (N * obs)) s =>
                        let '(k, first, tbl) := a in
                        let '(k', tbl') := snap_step g mc st first tbl s in
                        (pick [k; k'], false, tbl'))
                     (st_snaps st) (fst acc, true, snd acc) in
  (fst (fst r), snd r).

(* children of DAG merge nodes *)
Definition merge_children (h : history) : list N :=
  flat_map (fun st => match st_req st with RDagMerge _ _ c => [c] | _ => [] end) (h_steps h).

Definition spec_class (h : history) : nat :=
  fst (fold_left (step_class (h_geom h) (merge_children h)) (h_steps h) (0%nat, [])).

(* ---------------- the model run ---------------- *)
Definition fstate_vol (g : geom) (st : fstate) : vol N :=
  fold_left (fun v ba => let b := unbid (fst ba) in set_block g v (fst (fst b)) (snd (fst b)) (snd b) (snd ba))
            (f_vox st) (vconst g 0).

Definition arrs_of (g : geom) (v : vol N) (blocks : list N) : list (N * list N) :=
  map (fun b => let t := unbid b in (b, block_arr g v (fst (fst t)) (snd (fst t)) (snd t))) blocks.

(* dvid.RLEs.Partition + Stats per block: run lengths clipped at block borders along x *)
Fixpoint part_run (fuel : nat) (s x len : nat) : list (nat * nat) :=     (* (bx, voxels) *)
  match fuel with
  | O => []
  | S f =>
    match len with
    | O => []
    | _ => let bx := (x / s)%nat in
           let room := ((bx + 1) * s - x)%nat in
           if Nat.leb len room then [(bx, len)] else (bx, room) :: part_run f s (x + room) (len - room)
    end
  end.

Definition add_cnt (k : N) (n : N) (m : list (N * N)) : list (N * N) :=
  aset N.eqb k (n + match aget N.eqb k m with Some c => c | None => 0 end) m.

Definition runs_rl (g : geom) (runs : list run) : list (N * N) :=
  fold_left (fun m r =>
               let p := fst r in
               fold_left (fun m bc => add_cnt (bid (fst bc) (cy p / gbs g) (cz p / gbs g)) (N.of_nat (snd bc)) m)
                         (part_run (S (N.to_nat (snd r))) (gbs g) (cx p) (N.to_nat (snd r))) m) runs [].

Definition runs_masks (g : geom) (runs : list run) (blocks : list N) : list (N * list bool) :=
  let mv := fold_left (fun v r => paint_box v (fst r) (snd r, 1, 1) true) runs (vconst g false) in
  map (fun b => let t := unbid b in (b, block_arr g mv (fst (fst t)) (snd (fst t)) (snd t))) blocks.

Definition region_blocks (b0 nb : c3) : list N :=
  flat_map (fun dz => flat_map (fun dy => map (fun dx => bid (cx b0 + dx) (cy b0 + dy) (cz b0 + dz))
                                              (seq 0 (cx nb))) (seq 0 (cy nb))) (seq 0 (cz nb)).

Fixpoint triples (l : list N) : list (N * (N * N)) :=
  match l with
  | a :: b :: c :: r => (a, (b, c)) :: triples r
  | _ => []
  end.

Definition hdN (l : list N) : N := match l with x :: _ => x | [] => 0 end.

(* the machine operations one request amounts to *)
Definition req_ops (g : geom) (lay : vol N) (s : mstate) (st : step) : list mop :=
  match st_req st with
  | RIngest v via blocks groups =>
    let arrs := arrs_of g lay blocks in
    if via =? 0 then [MData v (OIngest arrs)]
    else if via =? 1 then map (fun a => MData v (OIngest [a])) arrs
    else
      let body_of_sv := fun sv => match find (fun gr => memN sv (snd gr)) groups with Some gr => fst gr | None => sv end in
      let sc := flat_map (fun a => block_hist (fst a) (snd a)) arrs in
      let bodies := nodupN (map (fun e => body_of_sv (ksv e)) sc) in
      MData v (OStore arrs)
        :: map (fun l => MData v (OPutIndex l (Some (filter (fun e => body_of_sv (ksv e) =? l) sc)))) bodies
        ++ [MData v (OPutMappings (flat_map (fun gr => map (fun sv => (sv, fst gr))
                                                          (filter (fun sv => negb (sv =? fst gr)) (snd gr))) groups))]
  | RWrite v b0 nb boxes =>
    let cur := fstate_vol g (view s v) in
    [MData v (OWrite (arrs_of g (paint cur boxes) (region_blocks b0 nb)))]
  | RMerge v t ms => [MData v (OMerge t ms)]
  | RCleave v b svs => [MData v (OCleave b svs (hdN (st_ret st)))]
  | RSplitSV v sv runs split remain =>
    let rl := runs_rl g runs in
    let sp := match st_ret st with a :: _ => a | [] => split end in
    let re := match st_ret st with _ :: b :: _ => b | _ => remain end in
    [MData v (OSplitSV sv sp re (runs_masks g runs (map fst rl)) rl)]
  | RRenumber v a b => [MData v (ORenumber a b)]
  | RSplit v body runs =>
    let rl := runs_rl g runs in
    [MData v (OSplit body (hdN (st_ret st)) (runs_masks g runs (map fst rl)) (triples (tl (st_ret st))))]
  | RCommit _ => []
  | RNewVersion p c => [MNewVersion p c]
  | RDagMerge p _ c => [MNewVersion p c]     (* the machine has no merge nodes: first parent only *)
  | RRestart => []
  | RObserve => []
  end.

Fixpoint run_ops (fx : fixes) (s : mstate) (ops : list mop) : res mstate :=
  match ops with
  | [] => Ok s
  | o :: r => res_bind (mstep fx s o) (fun s' => run_ops fx s' r)
  end.

(* GET mapping with verification (handlers.go:106, labelidx.go:740 verifyMappings) *)
Definition m_mapping (st : fstate) (s : N) : N :=
  match aget N.eqb s (f_map st) with
  | Some l => l
  | None => match get_idx st s with Some i => if sv_in i s then s else 0 | None => 0 end
  end.

Definition snap_ok (g : geom) (s : mstate) (o : obs) (ver : N) : bool :=
  let st := view s ver in
  let sv := fstate_vol g st in
  set_eqb (map fst (f_vox st)) (ob_present o) &&
  vol_eqb N.eqb sv (ob_sv o) &&
  vol_eqb N.eqb (map (map (map (fun x => if x =? 0 then 0 else mapped (f_map st) x))) sv) (ob_blkmapped o) &&
  forallb (fun lb =>
             let l := fst lb in let b := snd lb in
             (l =? 0) ||
             (match get_idx st l, bo_index b with
              | Some i, Some j => idx_eqv i j
              | None, None => true
              | _, _ => false
              end
              && tri_eqb (bo_size b) (match o_size st l with 0 => TNotFound | n => TOk n end)
              && match bo_svs b with Some l' => set_eqb (o_supervoxels st l) l' | None => match o_supervoxels st l with [] => true | _ => false end end
              && (so_map b =? m_mapping st l)
              && (so_sizes b =? o_sv_size st l)))
          (ob_labels o) &&
  pairs_eqv (filter (fun p => negb (fst p =? snd p)) (f_map st)) (ob_mappings o).

(* a body split the server accepted must satisfy the contract under which the split step is proved
   (Props.C08: C08_consistent_step, C08_split_guard_b_sound): evaluated on the state the model
   holds at the version the request went to, with the labels the server handed out *)
Definition split_guard_ok (g : geom) (s : mstate) (st : step) : bool :=
  match st_req st with
  | RSplit v body runs =>
    if st_ok st
    then split_guard_b (view s v) body (hdN (st_ret st))
                       (runs_masks g runs (map fst (runs_rl g runs))) (triples (tl (st_ret st)))
    else true
  | _ => true
  end.

(* run one history; false as soon as the model and the server disagree *)
Definition model_step (fx : fixes) (g : geom) (lay : vol N)
           (acc : bool * mstate * list (N * obs)) (st : step) : bool * mstate * list (N * obs) :=
  let '(ok, s, tbl) := acc in
  let r := run_ops fx s (req_ops g lay s st) in
  let '(ok1, s1) := match r with
                    | Ok s' => (st_ok st, s')
                    | _ => (negb (st_ok st), s)
                    end in
  let '(ok2, tbl2) :=
      fold_left (fun (a : bool * list (N * obs)) sn =>
                   let base := match sn_base sn with
                               | Some v => match aget N.eqb v (snd a) with Some o => o | None => obs0 g end
                               | None => obs0 g
                               end in
                   let o := apply_snap base sn in
                   (fst a && snap_ok g s1 o (sn_ver sn), aset N.eqb (sn_ver sn) o (snd a)))
                (st_snaps st) (true, tbl) in
  (ok && ok1 && ok2 && split_guard_ok g s st, s1, tbl2).

Definition model_ok_with (fx : fixes) (h : history) : bool :=
  let g := h_geom h in
  let lay := paint (vconst g 0) (h_layout h) in
  fst (fst (fold_left (model_step fx g lay) (h_steps h) (true, m_init, []))).

(* the accepted model is the repaired code; a history that only the unrepaired model explains
   is reported through spec_class, not here *)
Definition model_ok (h : history) : bool := model_ok_with all_fixed h || model_ok_with unfixed h.

Fixpoint classify_from (i : nat) (l : list history) : list (nat * nat) :=
  match l with
  | [] => []
  | c :: r => let k := spec_class c in
              if Nat.eqb k 0 then classify_from (S i) r else (i, k) :: classify_from (S i) r
  end.
Definition c08_spec_fail (l : list history) : list (nat * nat) := classify_from 0 l.
Definition c08_model_mismatch (l : list history) : list nat := find_idx (fun c => negb (model_ok c)) l.
