(* Model.ROI: span queries of datatype/roi/roi.go (C18; the ROI mask is reused by C17).
     dvid/point.go  Span.LessChunkPoint3d :1757  Span.Includes :1776  ListChunkPoint3dFromVoxels :775  ByZYX :788
     roi.go  VoxelBoundsInside :528   voxelRange :697   GetMask :713   seekSpan :773   PointQuery :799
   A span is (z, y, x0, x1) in BLOCK coordinates, x1 inclusive.  The span list is what getSpans
   returns: the stored keys in key order (that order is the subject of zyx_order).
   Definitions only. *)
From DV Require Import Base.Prelude Base.WrapZ Model.Geometry.
Local Open Scope Z_scope.

Record span : Type := SP { sz : Z; sy : Z; sx0 : Z; sx1 : Z }.

Definition span_less_pt (s : span) (b : pt) : bool :=
  if sz s <? pz b then true else if pz b <? sz s then false else
  if sy s <? py b then true else if py b <? sy s then false else
  sx1 s <? px b.

Definition span_includes (s : span) (b : pt) : bool :=
  (sz s =? pz b) && (sy s =? py b) && (sx0 s <=? px b) && (px b <=? sx1 s).

(* membership of a block in a span set: the meaning every query must agree with *)
Definition in_spans (b : pt) (l : list span) : bool := existsb (fun s => span_includes s b) l.

(* seekSpan: the cursor is the suffix of the span list starting at curSpanI *)
Fixpoint seek_span (b : pt) (spans : list span) : list span * bool :=
  match spans with
  | [] => ([], false)
  | s :: tl => if span_less_pt s b then seek_span b tl else (spans, span_includes s b)
  end.

(* ByZYX.Less on chunk points *)
Definition pt_less_zyx (a b : pt) : bool :=
  if pz a <? pz b then true else if pz b <? pz a then false else
  if py a <? py b then true else if py b <? py a then false else
  px a <? px b.

Definition ipt : Type := (pt * nat)%type.   (* chunk point, original index *)
Fixpoint ipt_insert (q : ipt) (l : list ipt) : list ipt :=
  match l with
  | [] => [q]
  | h :: t => if pt_less_zyx (fst q) (fst h) then q :: l else h :: ipt_insert q t
  end.
(* sort.Sort over ByZYX is not stable; equal keys are equal chunk points, so the answer of
   PointQuery does not depend on their order (proved for every sorted permutation) *)
Definition ipt_sort (l : list ipt) : list ipt := fold_right ipt_insert [] l.

Fixpoint set_nth_bool (l : list bool) (n : nat) (v : bool) : list bool :=
  match l, n with
  | [], _ => []
  | _ :: t, O => v :: t
  | h :: t, S n' => h :: set_nth_bool t n' v
  end.

(* the sweep of PointQuery over the sorted points; [out] is `inclusions` (make([]bool, n): all false) *)
Fixpoint pq_sweep (spans : list span) (sorted : list ipt) (out : list bool) : list bool :=
  match sorted with
  | [] => out
  | (b, i) :: t => let '(cur, inc) := seek_span b spans in pq_sweep cur t (set_nth_bool out i inc)
  end.

Fixpoint index_from (i : nat) (l : list pt) : list ipt :=
  match l with
  | [] => []
  | p :: t => (p, i) :: index_from (S i) t
  end.

Fixpoint chunk_all (size : pt) (l : list pt) : res (list pt) :=
  match l with
  | [] => Ok []
  | p :: t => match chunk_pt p size, chunk_all size t with
              | Ok c, Ok r => Ok (c :: r)
              | Panic, _ => Panic
              | _, Panic => Panic
              | _, _ => Err
              end
  end.

(* PointQuery(points): voxel points -> block points -> sort -> sweep *)
Definition point_query (size : pt) (spans : list span) (pts : list pt) : res (list bool) :=
  match chunk_all size pts with
  | Ok cs => Ok (pq_sweep spans (ipt_sort (index_from 0 cs)) (repeat false (length pts)))
  | Err => Err
  | Panic => Panic
  end.

(* VoxelBoundsInside on the chunked extents *)
Fixpoint bounds_inside (emin emax : pt) (spans : list span) : bool :=
  match spans with
  | [] => false
  | s :: tl =>
    if pz emax <? sz s then false
    else if (sz s <? pz emin) || (sy s <? py emin) || (sx1 s <? px emin) then bounds_inside emin emax tl
    else if (py emax <? sy s) || (px emax <? sx0 s) then bounds_inside emin emax tl
    else true
  end.

Definition voxel_bounds_inside (vmin vmax size : pt) (spans : list span) : res bool :=
  match chunk_pt vmin size, chunk_pt vmax size with
  | Ok emin, Ok emax => Ok (bounds_inside emin emax spans)
  | Panic, _ => Panic
  | _, Panic => Panic
  | _, _ => Err
  end.

Definition span_intersects_box (emin emax : pt) (s : span) : bool :=
  (pz emin <=? sz s) && (sz s <=? pz emax) && (py emin <=? sy s) && (sy s <=? py emax)
  && (px emin <=? sx1 s) && (sx0 s <=? px emax).

(* ---- GetMask ---- *)
Definition mul32 (a b : Z) : Z := w32 (a * b).

(* voxelRange(blockSize, begBlock, endBlock, begVoxel, endVoxel) *)
Definition voxel_range (bs begB endB begV endV : Z) : Z * Z :=
  let v0 := mul32 begB bs in
  let v0 := if v0 <? begV then begV else v0 in
  let v1 := w32 (mul32 (w32 (endB + 1)) bs - 1) in
  let v1 := if endV <? v1 then endV else v1 in
  (w32 (v0 - begV), w32 (v1 - begV)).

(* the loop over spans with its `continue`s and its `break`: the spans that get painted *)
Fixpoint mask_spans (minB maxB : pt) (spans : list span) : list span :=
  match spans with
  | [] => []
  | s :: tl =>
    if sz s <? pz minB then mask_spans minB maxB tl
    else if pz maxB <? sz s then []
    else if (sy s <? py minB) || (py maxB <? sy s) then mask_spans minB maxB tl
    else if (sx1 s <? px minB) || (px maxB <? sx0 s) then mask_spans minB maxB tl
    else s :: mask_spans minB maxB tl
  end.

(* the voxel box (relative to the subvolume offset) a span paints: x0,x1,y0,y1,z0,z1 *)
Definition span_box (bs pt0 pt1 : pt) (s : span) : (Z * Z) * (Z * Z) * (Z * Z) :=
  (voxel_range (px bs) (sx0 s) (sx1 s) (px pt0) (px pt1),
   voxel_range (py bs) (sy s) (sy s) (py pt0) (py pt1),
   voxel_range (pz bs) (sz s) (sz s) (pz pt0) (pz pt1)).
Definition in_box (bx : (Z * Z) * (Z * Z) * (Z * Z)) (v : pt) : bool :=
  let '((x0, x1), (y0, y1), (z0, z1)) := bx in
  (x0 <=? px v) && (px v <=? x1) && (y0 <=? py v) && (py v <=? y1) && (z0 <=? pz v) && (pz v <=? z1).

(* block range of the subvolume.  trunc = true is the code as it stands (Go's `/`, which rounds
   toward zero); trunc = false is the repaired code (floor, via Subvolume.BoundingChunks) *)
Definition block_range (trunc : bool) (bs pt0 pt1 : pt) : res (pt * pt) :=
  if trunc then
    if (px bs =? 0) || (py bs =? 0) || (pz bs =? 0) then Panic
    else Ok ((quot32 (px pt0) (px bs), quot32 (py pt0) (py bs), quot32 (pz pt0) (pz bs)),
             (quot32 (px pt1) (px bs), quot32 (py pt1) (py bs), quot32 (pz pt1) (pz bs)))
  else match chunk_pt pt0 bs, chunk_pt pt1 bs with
       | Ok a, Ok b => Ok (a, b)
       | Panic, _ => Panic
       | _, Panic => Panic
       | _, _ => Err
       end.

Definition end_point (offset size : pt) : pt :=
  (w32 (px offset + w32 (px size - 1)), w32 (py offset + w32 (py size - 1)),
   w32 (pz offset + w32 (pz size - 1))).

(* the boxes GetMask paints.  [spans] is the whole sorted span list; the key range query keeps
   the spans with minBlockZ <= z <= maxBlockZ, which the loop's own tests repeat. *)
Definition mask_boxes (trunc : bool) (bs offset size : pt) (spans : list span)
  : res (list ((Z * Z) * (Z * Z) * (Z * Z))) :=
  let pt0 := offset in
  let pt1 := end_point offset size in
  match block_range trunc bs pt0 pt1 with
  | Ok (minB, maxB) =>
    let ranged := filter (fun s => (pz minB <=? sz s) && (sz s <=? pz maxB)) spans in
    Ok (map (span_box bs pt0 pt1) (mask_spans minB maxB ranged))
  | Err => Err
  | Panic => Panic
  end.

(* GetMask as a predicate on mask voxels: data[z*nx*ny + y*nx + x] = 1 iff mask_at ... (x,y,z);
   the painted indices are inside the buffer because voxel_range clamps to the subvolume *)
Definition mask_at (trunc : bool) (bs offset size : pt) (spans : list span) (v : pt) : res bool :=
  match mask_boxes trunc bs offset size spans with
  | Ok boxes => Ok (existsb (fun b => in_box b v) boxes)
  | Err => Err
  | Panic => Panic
  end.

(* all voxels of a size, in the order of the mask bytes (x fastest) *)
Definition mask_voxels (size : pt) : list pt :=
  flat_map (fun z => flat_map (fun y => map (fun x => (Z.of_nat x, Z.of_nat y, Z.of_nat z))
                                            (seq 0 (Z.to_nat (px size))))
                              (seq 0 (Z.to_nat (py size))))
           (seq 0 (Z.to_nat (pz size))).

Definition get_mask (trunc : bool) (bs offset size : pt) (spans : list span) : res (list bool) :=
  match mask_boxes trunc bs offset size spans with
  | Ok boxes => Ok (map (fun v => existsb (fun b => in_box b v) boxes) (mask_voxels size))
  | Err => Err
  | Panic => Panic
  end.
