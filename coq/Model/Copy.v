(* Model.Copy: datastore/copy_local.go copyData over the versioned key-value core.
   A data instance is a set of core keys; copying renames the keys of the source instance
   (rho: source key -> key of the new instance, as DataContext.UpdateInstance does on the raw
   storage key) — raw copy transfers every stored entry, tombstones included; a flattened copy
   at version V stores, for every datum visible at V, its value at V only. *)
From DV Require Import Base.Prelude Model.Dag Model.Resolve Model.Core.
Local Open Scope N_scope.

Definition with_store (c : core) (s : list ((N * V) * entry)) : core :=
  {| next := next c; dag := dag c; nodes := nodes c; locked := locked c; store := s |}.

(* RawRangeQuery over the source key range, UpdateInstance on each key, RawPut *)
Definition copy_items (rho : N -> option N) (s : list ((N * V) * entry)) : list ((N * V) * entry) :=
  flat_map (fun it => match rho (fst (fst it)) with
                      | Some k' => [((k', snd (fst it)), snd it)]
                      | None => []
                      end) s.

Definition copy_raw (rho : N -> option N) (c : core) : core :=
  with_store c (copy_items rho (store c) ++ store c).

(* distinct source keys present in the store *)
Definition src_keys (rho : N -> option N) (c : core) : list N :=
  nodup N.eq_dec (filter (fun k => match rho k with Some _ => true | None => false end)
                         (map (fun it => fst (fst it)) (store c))).

(* ProcessRange at V over the source (what is visible at V), Put at V under the new instance *)
Definition flatten_items (rho : N -> option N) (c : core) (v : V) : list ((N * V) * entry) :=
  flat_map (fun k => match rho k, get c k v with
                     | Some k', RFound _ x => [((k', v), Val x)]
                     | _, _ => []
                     end) (src_keys rho c).

Definition copy_flat (rho : N -> option N) (c : core) (v : V) : core :=
  with_store c (flatten_items rho c v ++ store c).
