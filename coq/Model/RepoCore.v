(* Model.RepoCore: the tie between the repo manager machine (Model.Repo, whose validation decides
   which DAG requests are accepted) and the versioned key-value core (Model.Core, where that
   answer is an input flag).  Definitions only.

   One repo object of the manager is viewed as a Core state: version ids -> ordered parents, node
   set, committed set, next version id.  Version ids are global to the manager, so the ids that
   other repos consume show up in the view of this repo as gaps: [XSkip]. *)
From DV Require Import Base.Prelude Model.Dag Model.Resolve Model.Core Model.Repo Model.RepoInv.
From Coq Require Import String Ascii.
From stdpp Require Import gmap strings.

(* the projection: repo r of manager state s, with the store st of its key-value data *)
Definition core_of (s : state) (r : repo) (st : list ((N * V) * entry)) : core :=
  let l := map_to_list (r_nodes r) in
  {| next := st_next_v s;
     dag := List.map (fun x => (fst x, n_parents (snd x))) l;
     nodes := List.map fst l;
     locked := List.map fst (List.filter (fun x => n_locked (snd x)) l);
     store := st |}.

(* a Core state shows the DAG of repo object i of manager state s *)
Record view_ok (c : core) (s : state) (i : N) : Prop := {
  vw_next : next c = st_next_v s;
  vw_repo : exists r, st_repos s !! i = Some r /\
    (forall v : N, In v (nodes c) <-> is_Some (r_nodes r !! v)) /\
    (forall v : N, In v (locked c) <-> exists n, r_nodes r !! v = Some n /\ n_locked n = true) /\
    (forall (v : N) n, r_nodes r !! v = Some n -> parents_of (dag c) v = n_parents n)
}.

(* Core operations, plus version ids allocated elsewhere *)
Inductive xop :=
| XOp (o : op)
| XSkip (n : V).

Definition skip_to (c : core) (n : V) : core :=
  {| next := N.max (next c) n; dag := dag c; nodes := nodes c; locked := locked c; store := store c |}.

Definition xstep (c : core) (x : xop) : core :=
  match x with
  | XOp o => fst (Model.Core.step c o)
  | XSkip n => skip_to c n
  end.
Definition xrun (xs : list xop) (c : core) : core := fold_left xstep xs c.

(* the operations a repo request can amount to: accepted commits and accepted child creations *)
Definition dag_xop (x : xop) : Prop :=
  match x with
  | XOp (OCommit _ true) | XOp (OChild _ true) | XSkip _ => True
  | _ => False
  end.

(* data requests on the repo's versions *)
Definition data_op (o : op) : Prop :=
  match o with OPut _ _ _ | ODel _ _ | OGet _ _ => True | _ => False end.

(* a history of the real request language: repo-level requests as they reach the manager, and
   key-value reads/writes (gated by Core.step exactly as C02's gate does in default mode) *)
Inductive hreq :=
| HRepo (r : req)
| HData (o : op).

(* one step of the combined machine for repo i: the manager takes the request; the Core state moves
   by some accepted DAG operations / id gaps and still shows repo i afterwards.  (Proofs.RepoCore
   shows such a move always exists, and which one it is for every request kind.) *)
Inductive hstep (i : N) : state * core -> hreq -> state * core -> Prop :=
| hs_repo s c r xs :
    Forall dag_xop xs -> view_ok (xrun xs c) (fst (Model.Repo.step repaired s r)) i ->
    hstep i (s, c) (HRepo r) (fst (Model.Repo.step repaired s r), xrun xs c)
| hs_data s c o :
    data_op o -> hstep i (s, c) (HData o) (s, fst (Model.Core.step c o)).

Inductive hrun (i : N) : state * core -> list hreq -> state * core -> Prop :=
| hr_nil x : hrun i x [] x
| hr_cons x h y hs z : hstep i x h y -> hrun i y hs z -> hrun i x (h :: hs) z.

(* the UUID oracle along a history *)
Fixpoint horacles_ok (s : state) (hs : list hreq) : Prop :=
  match hs with
  | [] => True
  | HRepo r :: rest => Model.RepoInv.oracle_ok s r /\ horacles_ok (fst (Model.Repo.step repaired s r)) rest
  | HData _ :: rest => horacles_ok s rest
  end.

(* ---- which Core operations a request amounts to, as the manager's own answer decides ---- *)

Definition commit_xs (s : state) (u : string) (i : N) : list xop :=
  match find_node s u with
  | Some (j, _, v, n) => if n_locked n then [] else if N.eqb j i then [XOp (OCommit v true)] else []
  | None => []
  end.

Definition new_version_xs (s : state) (parent : string) (i : N) (out : outcome string) : list xop :=
  match out, find_node s parent with
  | Done _, Some (j, _, v, _) =>
    if N.eqb j i then [XOp (OChild [v] true)] else [XSkip (st_next_v s + 1)%N]
  | _, _ => []
  end.

Definition merge_xs (s : state) (ps : list string) (i : N) (out : outcome string) : list xop :=
  match out, ps with
  | Done _, p0 :: _ =>
    match st_repo_of s !! p0 with
    | Some j =>
      match st_repos s !! j with
      | Some r =>
        match validate_parents s r ps with
        | Some vs => if N.eqb j i then [XOp (OChild vs true)] else [XSkip (st_next_v s + 1)%N]
        | None => []
        end
      | None => []
      end
    | None => []
    end
  | _, _ => []
  end.

(* every request kind but resolve (whose operations depend on the conflicts found: there the
   theorem is existential) *)
Definition req_xs (s : state) (i : N) (r : req) : option (list xop) :=
  match r with
  | RNewRepo root pass fresh =>
    Some (match snd (do_new_repo repaired s root pass fresh) with
          | Done _ => [XSkip (st_next_v s + 1)%N]
          | _ => []
          end)
  | RCommit x =>
    Some (match node_gate s x false with
          | Done u => match locked_uuid s u with Done false => commit_xs s u i | _ => [] end
          | _ => []
          end)
  | RNewVersion x a fresh =>
    Some (match node_gate s x true, parse_assign a with
          | Done u, Done a' => new_version_xs s u i (snd (do_new_version repaired s u "" a' fresh))
          | _, _ => []
          end)
  | RBranch x b a fresh =>
    Some (match node_gate s x true, parse_assign a with
          | Done u, Done a' =>
            if in_list b DV.Gen.RepoFacts.l_branch_refused then []
            else new_version_xs s u i (snd (do_new_version repaired s u b a' fresh))
          | _, _ => []
          end)
  | RTag x t =>
    Some (match node_gate s x true with
          | Done u =>
            let (s1, o) := do_new_version repaired s u (DV.Gen.RepoFacts.s_tag_prefix ++ t)%string (Some t) "" in
            match o with
            | Done _ => (new_version_xs s u i o ++ commit_xs s1 t i)%list
            | _ => []
            end
          | _ => []
          end)
  | RMerge x mt ps fresh =>
    Some (match repo_gate s x with
          | Done _ =>
            if (length ps <? 2)%nat then [] else
            match match_all s ps with
            | Done us => if negb mt then [] else merge_xs s us i (snd (do_merge repaired s us fresh))
            | _ => []
            end
          | _ => []
          end)
  | RResolve _ _ _ _ => None
  | _ => Some []
  end.
