(* Model.Conc: interleaving semantics of mutation requests (definitions only).

   A request is a list of atomic actions over an abstract store [loc -> value]:
   [Read l] appends the current value of [l] to the request's locals, [Write l f] stores
   [f locals], [Lock/Unlock] an exclusive mutex, [RLock/RUnlock] the shared side of a
   sync.RWMutex, [Ack] the success answer to the client.  A schedule is a list of thread
   indices; [step] executes the next action of the named thread if the mutex semantics
   enable it, so [run_schedule] accepts exactly the interleavings the mutexes allow.

   What is NOT here: preemption inside an action (each action is atomic), the Go memory
   model, badger's transaction isolation (a transaction is modelled as a mutex). *)
From DV Require Import Base.Prelude.
From Coq Require Import String.

Definition loc := string.
Definition mutex := string.

Section Conc.
Variable value : Type.

Definition store := loc -> value.
Definition locals := list value.

Inductive action :=
| Read (l : loc)
| Write (l : loc) (f : locals -> value)
| Lock (m : mutex)
| Unlock (m : mutex)
| RLock (m : mutex)
| RUnlock (m : mutex)
| Ack.

Definition request := list action.

Record thread := mkThread { t_rem : list action; t_regs : locals; t_acked : bool }.

(* (mutex, holder, exclusive?) *)
Definition hold := (mutex * nat * bool)%type.

Record state := mkState {
  st : store;
  held : list hold;
  thr : list thread;
  log : list (nat * action);       (* executed (thread, action) events, most recent first *)
}.

Definition set_store (s : store) (l : loc) (v : value) : store :=
  fun l' => if String.eqb l' l then v else s l'.

Fixpoint set_nth {A} (l : list A) (i : nat) (x : A) : list A :=
  match l, i with
  | [], _ => []
  | _ :: r, O => x :: r
  | y :: r, S i' => y :: set_nth r i' x
  end.

Definition on_mutex (m : mutex) (e : hold) : bool := String.eqb (fst (fst e)) m.
Definition holds_any (m : mutex) (h : list hold) : bool := existsb (on_mutex m) h.
Definition holds_excl (m : mutex) (h : list hold) : bool :=
  existsb (fun e => on_mutex m e && snd e) h.

Definition hold_eqb (a b : hold) : bool :=
  String.eqb (fst (fst a)) (fst (fst b)) && Nat.eqb (snd (fst a)) (snd (fst b)) && Bool.eqb (snd a) (snd b).

(* remove the first occurrence; None when the thread does not hold the mutex that way
   (Go: "unlock of unlocked mutex" is a fatal error; such a schedule is not accepted) *)
Fixpoint release (e : hold) (h : list hold) : option (list hold) :=
  match h with
  | [] => None
  | x :: r => if hold_eqb x e then Some r
              else match release e r with Some r' => Some (x :: r') | None => None end
  end.

Definition step (s : state) (i : nat) : option state :=
  match nth_error (thr s) i with
  | None => None
  | Some t =>
    match t_rem t with
    | [] => None
    | a :: r =>
      let upd (sto : store) (h : list hold) (regs : locals) (ack : bool) :=
        Some (mkState sto h (set_nth (thr s) i (mkThread r regs ack)) ((i, a) :: log s)) in
      match a with
      | Read l => upd (st s) (held s) (t_regs t ++ [st s l]) (t_acked t)
      | Write l f => upd (set_store (st s) l (f (t_regs t))) (held s) (t_regs t) (t_acked t)
      | Lock m => if holds_any m (held s) then None
                  else upd (st s) ((m, i, true) :: held s) (t_regs t) (t_acked t)
      | RLock m => if holds_excl m (held s) then None
                   else upd (st s) ((m, i, false) :: held s) (t_regs t) (t_acked t)
      | Unlock m => match release (m, i, true) (held s) with
                    | Some h' => upd (st s) h' (t_regs t) (t_acked t)
                    | None => None
                    end
      | RUnlock m => match release (m, i, false) (held s) with
                     | Some h' => upd (st s) h' (t_regs t) (t_acked t)
                     | None => None
                     end
      | Ack => upd (st s) (held s) (t_regs t) true
      end
    end
  end.

Fixpoint run_schedule (sched : list nat) (s : state) : option state :=
  match sched with
  | [] => Some s
  | i :: r => match step s i with Some s' => run_schedule r s' | None => None end
  end.

Definition init (reqs : list request) (s0 : store) : state :=
  mkState s0 [] (map (fun r => mkThread r [] false) reqs) [].

Definition finished (t : thread) : bool := match t_rem t with [] => true | _ => false end.
Definition all_done (s : state) : bool := forallb finished (thr s).

(* ---- sequential semantics: one request run alone, mutexes and Ack are no-ops ---- *)
Fixpoint exec (l : list action) (regs : locals) (s : store) : store :=
  match l with
  | [] => s
  | Read x :: r => exec r (regs ++ [s x]) s
  | Write x f :: r => exec r regs (set_store s x (f regs))
  | _ :: r => exec r regs s
  end.
Definition exec_req (r : request) (s : store) : store := exec r [] s.
Definition run_sequential (rs : list request) (s : store) : store :=
  fold_left (fun s r => exec_req r s) rs s.

(* ---- order in which the threads acquired the exclusive mutex [mu] ---- *)
Definition is_lock_of (mu : mutex) (a : action) : bool :=
  match a with Lock m => String.eqb m mu | _ => false end.
Definition acq_order (mu : mutex) (s : state) : list nat :=
  rev (map fst (filter (fun e => is_lock_of mu (snd e)) (log s))).

(* ---- coverage: the request takes [mu] exclusively exactly once, every access to the
   store lies between that Lock and its Unlock, the Ack comes after the Unlock ---- *)
Inductive phase := Before | Inside | After.

Definition cov_step (mu : mutex) (ph : phase) (a : action) : option phase :=
  match ph, a with
  | Before, Lock m => if String.eqb m mu then Some Inside else Some Before
  | Before, Read _ => None
  | Before, Write _ _ => None
  | Before, Ack => None
  | Before, Unlock m => if String.eqb m mu then None else Some Before
  | Before, RLock m => if String.eqb m mu then None else Some Before
  | Before, RUnlock m => if String.eqb m mu then None else Some Before
  | Inside, Unlock m => if String.eqb m mu then Some After else Some Inside
  | Inside, Lock m => if String.eqb m mu then None else Some Inside
  | Inside, RLock m => if String.eqb m mu then None else Some Inside
  | Inside, RUnlock m => if String.eqb m mu then None else Some Inside
  | Inside, Ack => None
  | Inside, Read _ => Some Inside
  | Inside, Write _ _ => Some Inside
  | After, Read _ => None
  | After, Write _ _ => None
  | After, Lock m => if String.eqb m mu then None else Some After
  | After, Unlock m => if String.eqb m mu then None else Some After
  | After, RLock m => if String.eqb m mu then None else Some After
  | After, RUnlock m => if String.eqb m mu then None else Some After
  | After, Ack => Some After
  end.

Fixpoint cov (mu : mutex) (ph : phase) (l : list action) : bool :=
  match l with
  | [] => match ph with After => true | _ => false end
  | a :: r => match cov_step mu ph a with Some ph' => cov mu ph' r | None => false end
  end.

Definition covered (mu : mutex) (r : request) : bool := cov mu Before r.

End Conc.

Arguments Read {value} l.
Arguments Write {value} l f.
Arguments Lock {value} m.
Arguments Unlock {value} m.
Arguments RLock {value} m.
Arguments RUnlock {value} m.
Arguments Ack {value}.
Arguments mkThread {value} t_rem t_regs t_acked.
Arguments t_rem {value} t.
Arguments t_regs {value} t.
Arguments t_acked {value} t.
Arguments mkState {value} st held thr log.
Arguments st {value} s.
Arguments held {value} s.
Arguments thr {value} s.
Arguments log {value} s.
Arguments set_store {value} s l v.
Arguments step {value} s i.
Arguments run_schedule {value} sched s.
Arguments init {value} reqs s0.
Arguments finished {value} t.
Arguments all_done {value} s.
Arguments exec {value} l regs s.
Arguments exec_req {value} r s.
Arguments run_sequential {value} rs s.
Arguments is_lock_of {value} mu a.
Arguments acq_order {value} mu s.
Arguments cov_step {value} mu ph a.
Arguments cov {value} mu ph l.
Arguments covered {value} mu r.
