(* Model.Repo: the repo manager of datastore/repo_local.go as a state machine over the requests
   that reach it through server/web.go (and the three RPC commands of server/rpc.go that delete a
   repo, rename and delete a data instance).  Definitions only.

   What is concrete: argument parsing and validation of every handler (dvid.StringToUUID or its
   absence, "master" rejection, MatchingUUID prefix / uuid:branch / branch~n addressing, the locked
   checks of nodeSelector and of the handlers), and the exact order of the state mutations before
   each error return.  What is an oracle (a request argument): freshly generated UUIDs
   (dvid.NewUUID), which parents of a resolve request had conflicting keys (key-value store
   content), whether a data type name is known.  (Since the branch heads became a function of the DAG
   -- the newest node of a branch -- nothing the model covers depends on Go's map iteration order.)

   [fixes] selects, per repaired defect, the code as it was found (false) or after its fix: commit
   (true); [repaired] is the code the theorems of Props/C07.v are about. *)
From DV Require Import Base.Prelude Gen.RepoFacts.
From Coq Require Import String Ascii.
From stdpp Require Import gmap strings.
Local Open Scope string_scope.

(* ---- results ---- *)
(* Done: the Go function returned normally; Fail: it returned an error (HTTP 400);
   Crash: it panicked (HTTP 500 through recoverHandler); Hang: the model ran out of fuel (the Go
   loop would not terminate; only possible on a cyclic graph). *)
Inductive outcome (A : Type) : Type := Done (a : A) | Fail | Crash | Hang.
Arguments Done {A} a.
Arguments Fail {A}.
Arguments Crash {A}.
Arguments Hang {A}.

Definition obind {A B} (x : outcome A) (f : A -> outcome B) : outcome B :=
  match x with Done a => f a | Fail => Fail | Crash => Crash | Hang => Hang end.
Definition of_opt {A} (x : option A) : outcome A :=
  match x with Some a => Done a | None => Fail end.
Definition is_done {A} (x : outcome A) : bool := match x with Done _ => true | _ => false end.
(* an outcome that is not Done, at another type *)
Definition recast {A B} (x : outcome A) : outcome B :=
  match x with Done _ => Fail | Fail => Fail | Crash => Crash | Hang => Hang end.

(* ---- state ---- *)
Notation uuid := string (only parsing).
Notation vid := N (only parsing).   (* dvid.VersionID *)
Notation rid := N (only parsing).   (* dvid.RepoID *)

(* nodeT (note, log and time stamps are not part of the property) *)
Record node := mkNode {
  n_uuid : uuid;
  n_parents : list vid;
  n_children : list vid;
  n_branch : string;
  n_locked : bool }.

(* repoT: root uuid and version, dag.nodes, data instance names, passcode *)
Record repo := mkRepo {
  r_root : uuid;
  r_rootv : vid;
  r_nodes : gmap vid node;
  r_data : list string;
  r_pass : string }.

(* repoManager.  [st_repos] is the heap of repoT objects, addressed by RepoID (objects are never
   freed: a pointer held in m.repos stays valid); [st_repo_of] is m.repos (uuid -> *repoT),
   [st_roots] is m.repoToUUID, [st_heads] is m.branchToUUID whose keys are
   string(root uuid) + branch name. *)
Record state := mkState {
  st_repos : gmap rid repo;
  st_repo_of : gmap uuid rid;
  st_roots : gmap rid uuid;
  st_u2v : gmap uuid vid;
  st_v2u : gmap vid uuid;
  st_heads : gmap string uuid;
  st_next_v : vid;
  st_next_r : rid;
  st_next_i : N }.

(* Initialize: repoID and versionID as the source has them (Gen.RepoFacts), instanceID 1 *)
Definition init : state := mkState ∅ ∅ ∅ ∅ ∅ ∅ n_init_versionID n_init_repoID 1%N.

Record fixes := mkFixes {
  fx_merge_validate : bool;   (* merge validates every parent before it creates the child *)
  fx_merge_distinct : bool;   (* merge rejects a parent listed twice *)
  fx_assign_check : bool;     (* newVersion rejects an empty or already used assigned UUID *)
  fx_tag_return : bool;       (* the tag handler stops after a failed NewVersion *)
  fx_root_valid : bool;       (* newRepo rejects an assigned root that is not a 32-digit hex UUID *)
  fx_resolve_validate : bool  (* the resolve handler validates parents and data names first *) }.
Definition repaired : fixes := mkFixes true true true true true true.
Definition as_found : fixes := mkFixes false false false false false false.

(* ---- strings ---- *)
Definition is_hex (c : ascii) : bool :=
  let n := nat_of_ascii c in
  ((48 <=? n) && (n <=? 57) || (97 <=? n) && (n <=? 102) || (65 <=? n) && (n <=? 70))%nat.
Definition is_digit (c : ascii) : bool :=
  let n := nat_of_ascii c in ((48 <=? n) && (n <=? 57))%nat.
Fixpoint all_chars (f : ascii -> bool) (s : string) : bool :=
  match s with EmptyString => true | String c r => f c && all_chars f r end.

(* dvid.StringToUUID succeeds *)
Definition valid_uuid (s : string) : bool := (String.length s =? 32)%nat && all_chars is_hex s.

(* strings.Split(s, c) for a one-character separator: never empty *)
Fixpoint split_on (c : ascii) (s : string) : list string :=
  match s with
  | EmptyString => [EmptyString]
  | String a r =>
    if Ascii.eqb a c then EmptyString :: split_on c r
    else match split_on c r with
         | h :: t => String a h :: t
         | [] => [String a EmptyString]
         end
  end.

Fixpoint digits_val (s : string) (acc : N) : option N :=
  match s with
  | EmptyString => Some acc
  | String c r => if is_digit c then digits_val r (10 * acc + (N_of_ascii c - 48))%N else None
  end.
(* strconv.Atoi: optional sign, decimal digits, 64-bit range *)
Definition atoi (s : string) : option Z :=
  let mag (r : string) : option N :=
    match r with
    | EmptyString => None
    | _ => match digits_val r 0 with
           | Some n => if (n <? 2 ^ 63)%N then Some n else None
           | None => None
           end
    end in
  match s with
  | String "+" r => option_map Z.of_N (mag r)
  | String "-" r => option_map (fun n => (- Z.of_N n)%Z) (mag r)
  | _ => option_map Z.of_N (mag s)
  end.

(* key of m.branchToUUID: string(r.uuid) + name, the empty name standing for "master" *)
Definition branch_label (name : string) : string := if String.eqb name "" then s_master_label else name.
Definition head_key (root : uuid) (name : string) : string := root ++ branch_label name.

Definition in_list (x : string) (l : list string) : bool := existsb (String.eqb x) l.

(* ---- lookups and updates ---- *)
Definition repo_by_uuid (s : state) (u : uuid) : option repo :=
  match st_repo_of s !! u with Some i => st_repos s !! i | None => None end.

Definition nodes_list (r : repo) : list (vid * node) := map_to_list (r_nodes r).

(* every version of the list present in the map, in order; None if one is missing *)
Fixpoint lookup_all (nodes : gmap vid node) (vs : list vid) : option (list node) :=
  match vs with
  | [] => Some []
  | v :: rest => match nodes !! v, lookup_all nodes rest with
                 | Some n, Some l => Some (n :: l)
                 | _, _ => None
                 end
  end.

Definition upd_nodes (f : gmap vid node -> gmap vid node) (r : repo) : repo :=
  mkRepo (r_root r) (r_rootv r) (f (r_nodes r)) (r_data r) (r_pass r).
Definition upd_data (f : list string -> list string) (r : repo) : repo :=
  mkRepo (r_root r) (r_rootv r) (r_nodes r) (f (r_data r)) (r_pass r).
Definition upd_repo (s : state) (i : rid) (f : repo -> repo) : state :=
  mkState (alter f i (st_repos s)) (st_repo_of s) (st_roots s) (st_u2v s) (st_v2u s) (st_heads s)
          (st_next_v s) (st_next_r s) (st_next_i s).
Definition set_repo_of (s : state) (u : uuid) (i : rid) : state :=
  mkState (st_repos s) (<[u := i]> (st_repo_of s)) (st_roots s) (st_u2v s) (st_v2u s) (st_heads s)
          (st_next_v s) (st_next_r s) (st_next_i s).
Definition add_child (c : vid) (n : node) : node :=
  mkNode (n_uuid n) (n_parents n) (n_children n ++ [c])%list (n_branch n) (n_locked n).
Definition add_parent (p : vid) (n : node) : node :=
  mkNode (n_uuid n) (n_parents n ++ [p])%list (n_children n) (n_branch n) (n_locked n).
Definition lock_node (n : node) : node :=
  mkNode (n_uuid n) (n_parents n) (n_children n) (n_branch n) true.

(* ---- dagT.getAncestryByBranch ---- *)
Definition branch_matches (name b : string) : bool :=
  String.eqb b name || (String.eqb name "master" && String.eqb b "").

(* walk up from the leaf: every parent but the last is listed, the last one is ascended *)
Fixpoint ascend (fuel : nat) (nodes : gmap vid node) (cur : node) : outcome (list uuid) :=
  match fuel with
  | O => Hang
  | S f =>
    match lookup_all nodes (n_parents cur) with
    | None => Fail
    | Some ps =>
      match List.rev ps with
      | [] => Done [n_uuid cur]
      | lastp :: rinit =>
        obind (ascend f nodes lastp) (fun rest =>
          Done (n_uuid cur :: List.map n_uuid (List.rev rinit) ++ rest)%list)
      end
    end
  end.

(* the newest node (largest version id) among those satisfying f: repoT.branchHeads and the start of
   dagT.getAncestryByBranch *)
Definition newest (f : node -> bool) (r : repo) : option (vid * node) :=
  fold_left (fun acc x =>
    if f (snd x) then
      match acc with
      | Some y => if (fst y <? fst x)%N then Some x else acc
      | None => Some x
      end
    else acc) (nodes_list r) None.

(* start at the head of the branch ("master" also names the empty branch), walk up *)
Definition ancestry (r : repo) (name : string) : outcome (list uuid) :=
  match newest (fun n => branch_matches name (n_branch n)) r with
  | None => Done []
  | Some (_, n0) => ascend (S (size (r_nodes r))) (r_nodes r) n0
  end.

(* ---- repoT.branchHeads / repoManager.cacheBranchHeads ---- *)
(* every branch name of the repo with the UUID of its newest node, keyed as in branchToUUID *)
Definition repo_heads (r : repo) : list (string * uuid) :=
  flat_map (fun x =>
    match newest (fun m => String.eqb (n_branch m) (n_branch (snd x))) r with
    | Some (_, h) => [(head_key (r_root r) (n_branch (snd x)), n_uuid h)]
    | None => []
    end) (nodes_list r).

(* the cached heads of repo r are dropped (every key that starts with its root UUID) and replaced
   by what its DAG gives *)
Definition cache_heads (s : state) (r : repo) : state :=
  mkState (st_repos s) (st_repo_of s) (st_roots s) (st_u2v s) (st_v2u s)
          (list_to_map (repo_heads r) ∪
           filter (fun kv => String.prefix (r_root r) (fst kv) = false) (st_heads s))
          (st_next_v s) (st_next_r s) (st_next_i s).
Definition recache (s : state) (i : rid) : state :=
  match st_repos s !! i with Some r => cache_heads s r | None => s end.

(* ---- repoManager.getBranchVersion / matchingUUID ---- *)
(* uuid == NilUUID: "for _, r = range m.repos { break }" after the more-than-one-repo check;
   with no repo r stays nil and is dereferenced *)
Definition the_only_repo (s : state) : outcome repo :=
  match map_to_list (st_roots s) with
  | [] => Crash
  | [(i, _)] => of_opt (st_repos s !! i)
  | _ => Fail
  end.

Definition get_branch_version (s : state) (u : uuid) (name : string) : outcome uuid :=
  obind (if String.eqb u "" then the_only_repo s else of_opt (repo_by_uuid s u)) (fun r =>
  obind
    match split_on "~" name with
    | [nm; k] =>
      obind (ancestry r nm) (fun anc =>
        match atoi k with
        | None => Fail
        | Some z =>
          if (z <? 0)%Z then Crash     (* uuidAncestry[parent] with a negative index *)
          else of_opt (nth_error anc (Z.to_nat z))
        end)
    | _ => of_opt (st_heads s !! head_key (r_root r) name)
    end (fun bu =>
  match st_u2v s !! bu with Some _ => Done bu | None => Fail end)).

(* a UUID string as it arrives in a URL or a JSON body *)
Notation uref := string (only parsing).

Definition prefix_matches (s : state) (p : string) : list (uuid * vid) :=
  List.filter (fun x => String.prefix p (fst x)) (map_to_list (st_u2v s)).

Definition matching (s : state) (x : uref) : outcome uuid :=
  let by_prefix (p branch : string) :=
    match prefix_matches s p with
    | [(u, _)] => if String.eqb branch "" then Done u else get_branch_version s u branch
    | _ => Fail
    end in
  match split_on ":" x with
  | [a] => by_prefix a ""
  | [a; b] => if String.eqb a "" then get_branch_version s "" b else by_prefix a b
  | _ => Fail
  end.

(* versionFromUUID, repoFromUUID, r.dag.nodes[v] *)
Definition find_node (s : state) (u : uuid) : option (rid * repo * vid * node) :=
  match st_u2v s !! u, st_repo_of s !! u with
  | Some v, Some i =>
    match st_repos s !! i with
    | Some r => match r_nodes r !! v with Some n => Some (i, r, v, n) | None => None end
    | None => None
    end
  | _, _ => None
  end.

Definition locked_uuid (s : state) (u : uuid) : outcome bool :=
  match find_node s u with Some (_, _, _, n) => Done (n_locked n) | None => Fail end.

(* ---- newUUID ---- *)
Definition new_uuid (s : state) (u : uuid) : state * vid :=
  let v := st_next_v s in
  (mkState (st_repos s) (st_repo_of s) (st_roots s) (<[u := v]> (st_u2v s)) (<[v := u]> (st_v2u s))
           (st_heads s) (v + 1)%N (st_next_r s) (st_next_i s), v).

(* ---- repoManager.commit ---- *)
Definition do_commit (s : state) (u : uuid) : state * outcome unit :=
  match find_node s u with
  | Some (i, _, v, n) =>
    if n_locked n then (s, Fail)
    else (upd_repo s i (upd_nodes (alter lock_node v)), Done tt)
  | None => (s, Fail)
  end.

(* ---- repoManager.newVersion ---- *)
Definition assign_refused (s : state) (assign : option uuid) : bool :=
  match assign with
  | Some a => String.eqb a "" || bool_decide (is_Some (st_u2v s !! a))
  | None => false
  end.

Definition do_new_version (fx : fixes) (s : state) (parent : uuid) (bname : string)
           (assign : option uuid) (fresh : uuid) : state * outcome uuid :=
  match find_node s parent with
  | None => (s, Fail)
  | Some (i, r, v, n) =>
    if negb (n_locked n) then (s, Fail) else
    let branch : option string :=
      if String.eqb bname "" || String.eqb bname (n_branch n) then
        (* no sister node may already continue the parent's branch *)
        match lookup_all (r_nodes r) (n_children n) with
        | None => None
        | Some sisters =>
          if existsb (fun sn => String.eqb (n_branch sn) (n_branch n)) sisters then None
          else Some (n_branch n)
        end
      else if existsb (fun x => String.eqb (n_branch (snd x)) bname) (nodes_list r) then None
      else Some bname in
    match branch with
    | None => (s, Fail)
    | Some b =>
      if fx_assign_check fx && assign_refused s assign then (s, Fail) else
      let cu := match assign with Some a => a | None => fresh end in
      let (s1, cv) := new_uuid s cu in
      let s2 := set_repo_of s1 cu i in
      let child := mkNode cu [v] [] b false in
      (recache (upd_repo s2 i (upd_nodes (fun m => <[cv := child]> (alter (add_child cv) v m)))) i, Done cu)
    end
  end.

(* ---- repoManager.merge ---- *)
(* as found: the child is already in the DAG when the parents are looked at one by one; the loop
   returns at the first unknown, foreign or uncommitted parent *)
Fixpoint merge_link (s : state) (i : rid) (cv : vid) (ps : list uuid) : state * bool :=
  match ps with
  | [] => (s, true)
  | p :: rest =>
    match st_u2v s !! p, st_repos s !! i with
    | Some v, Some r =>
      match r_nodes r !! v with
      | Some n =>
        if negb (n_locked n) then (s, false)
        else merge_link (upd_repo s i (upd_nodes (fun m => alter (add_child cv) v (alter (add_parent v) cv m))))
                        i cv rest
      | None => (s, false)
      end
    | _, _ => (s, false)
    end
  end.

(* repaired: first pass over the parents, nothing is modified *)
Fixpoint validate_parents (s : state) (r : repo) (ps : list uuid) : option (list vid) :=
  match ps with
  | [] => Some []
  | p :: rest =>
    match st_u2v s !! p with
    | Some v =>
      match r_nodes r !! v with
      | Some n => if n_locked n then option_map (cons v) (validate_parents s r rest) else None
      | None => None
      end
    | None => None
    end
  end.

Definition link_children (cv : vid) (vs : list vid) (m : gmap vid node) : gmap vid node :=
  fold_left (fun m v => alter (add_child cv) v m) vs m.

Definition do_merge (fx : fixes) (s : state) (parents : list uuid) (fresh : uuid) : state * outcome uuid :=
  match parents with
  | p0 :: _ :: _ =>
    match st_repo_of s !! p0 with
    | None => (s, Fail)
    | Some i =>
      if fx_merge_validate fx then
        match st_repos s !! i with
        | None => (s, Fail)
        | Some r =>
          match validate_parents s r parents with
          | None => (s, Fail)
          | Some vs =>
            if fx_merge_distinct fx && negb (bool_decide (NoDup vs)) then (s, Fail) else
            let (s1, cv) := new_uuid s fresh in
            let s2 := set_repo_of s1 fresh i in
            (recache (upd_repo s2 i (upd_nodes (fun m => link_children cv vs (<[cv := mkNode fresh vs [] "" false]> m)))) i,
             Done fresh)
          end
        end
      else
        let (s1, cv) := new_uuid s fresh in
        let s2 := set_repo_of s1 fresh i in
        let s3 := upd_repo s2 i (upd_nodes (fun m => <[cv := mkNode fresh [] [] "" false]> m)) in
        let (s4, ok) := merge_link s3 i cv parents in
        if ok then (recache s4 i, Done fresh) else (s4, Fail)
    end
  | _ => (s, Fail)
  end.

(* ---- repoManager.newRepo ---- *)
Definition do_new_repo (fx : fixes) (s : state) (assign : option uuid) (pass : string) (fresh : uuid)
  : state * outcome uuid :=
  let refused := match assign with
                 | Some a => (fx_root_valid fx && negb (valid_uuid a))
                             || bool_decide (is_Some (st_repo_of s !! a))
                 | None => false
                 end in
  if refused then (s, Fail) else
  let u := match assign with Some a => a | None => fresh end in
  let (s1, v) := new_uuid s u in
  let id := st_next_r s1 in
  let r := mkRepo u v {[ v := mkNode u [] [] "" false ]} [] pass in
  (cache_heads (mkState (<[id := r]> (st_repos s1)) (<[u := id]> (st_repo_of s1)) (<[id := u]> (st_roots s1))
                        (st_u2v s1) (st_v2u s1) (st_heads s1) (st_next_v s1) (id + 1)%N (st_next_i s1)) r,
   Done u).

(* ---- repoManager.deleteRepo ---- *)
Definition drop_versions (s : state) (vs : list vid) : option state :=
  fold_left (fun acc v =>
    match acc with
    | None => None
    | Some s =>
      match st_v2u s !! v with
      | None => None     (* Go: idMutex is unlocked twice, a fatal runtime error *)
      | Some u => Some (mkState (st_repos s) (delete u (st_repo_of s)) (st_roots s) (delete u (st_u2v s))
                                (delete v (st_v2u s)) (st_heads s) (st_next_v s) (st_next_r s) (st_next_i s))
      end
    end) vs (Some s).

Definition do_delete_repo (s : state) (u : uuid) (pass : string) : state * outcome uuid :=
  match st_repo_of s !! u with
  | None => (s, Fail)
  | Some i =>
    match st_repos s !! i with
    | None => (s, Fail)
    | Some r =>
      if negb (String.eqb (r_root r) u) then (s, Fail)
      else if negb (String.eqb (r_pass r) "") && negb (String.eqb (r_pass r) pass) then (s, Fail)
      else
        let s1 := mkState (st_repos s) (st_repo_of s) (delete i (st_roots s)) (st_u2v s) (st_v2u s)
                          (st_heads s) (st_next_v s) (st_next_r s) (st_next_i s) in
        match drop_versions s1 (List.map fst (nodes_list r)) with
        | Some s2 => (s2, Done u)
        | None => (s1, Crash)
        end
    end
  end.

(* ---- data instances: newData, renameDataByName, DeleteDataByName ---- *)

Definition bump_instance_id (s : state) : state :=
  mkState (st_repos s) (st_repo_of s) (st_roots s) (st_u2v s) (st_v2u s) (st_heads s)
          (st_next_v s) (st_next_r s) (st_next_i s + 1)%N.

Definition do_new_data (s : state) (u : uuid) (name : string) : state * outcome uuid :=
  let s1 := bump_instance_id s in       (* newInstanceID comes first *)
  match st_repo_of s1 !! u with
  | None => (s1, Fail)
  | Some i =>
    match st_repos s1 !! i with
    | None => (s1, Fail)
    | Some r => if in_list name (r_data r) then (s1, Fail)
                else (upd_repo s1 i (upd_data (fun l => (l ++ [name])%list)), Done u)
    end
  end.

Definition passcode_ok (r : repo) (pass : string) : bool :=
  String.eqb (r_pass r) "" || String.eqb (r_pass r) pass.

Definition do_rename_data (s : state) (u : uuid) (old new pass : string) : state * outcome uuid :=
  match st_repo_of s !! u with
  | None => (s, Fail)
  | Some i =>
    match st_repos s !! i with
    | None => (s, Fail)
    | Some r =>
      if negb (in_list old (r_data r)) then (s, Fail)       (* GetDataByUUIDName in the RPC handler *)
      else if negb (passcode_ok r pass) then (s, Fail)
      else if in_list new (r_data r) then (s, Fail)
      else (upd_repo s i (upd_data (fun l => List.map (fun x => if String.eqb x old then new else x) l)), Done u)
    end
  end.

Definition do_delete_data (s : state) (u : uuid) (name pass : string) : state * outcome uuid :=
  match st_repo_of s !! u with
  | None => (s, Fail)
  | Some i =>
    match st_repos s !! i with
    | None => (s, Fail)
    | Some r =>
      if negb (in_list name (r_data r)) then (s, Fail)
      else if negb (passcode_ok r pass) then (s, Fail)
      else (upd_repo s i (upd_data (List.filter (fun x => negb (String.eqb x name)))), Done u)
    end
  end.

(* ---- middleware ---- *)
(* repoRawSelector + nodeSelector for POST /api/node/:uuid/:action.  (Default server mode: not
   read-only, not full-write, no admin token; Model.Gate adds the modes.) *)
Definition node_gate (s : state) (x : uref) (branch_request : bool) : outcome uuid :=
  obind (matching s x) (fun u =>
  obind (locked_uuid s u) (fun locked =>
  if locked && negb branch_request then Fail else Done u)).

(* repoRawSelector + repoSelector for /api/repo/:uuid/:action *)
Definition repo_gate (s : state) (x : uref) : outcome uuid := matching s x.

Fixpoint match_all (s : state) (xs : list uref) : outcome (list uuid) :=
  match xs with
  | [] => Done []
  | x :: rest => obind (matching s x) (fun u => obind (match_all s rest) (fun l => Done (u :: l)))
  end.

(* ---- handlers ---- *)
(* an assigned "uuid" field of newversion / branch: absent when empty, else through StringToUUID *)
Definition parse_assign (a : string) : outcome (option uuid) :=
  if String.eqb a "" then Done None else if valid_uuid a then Done (Some a) else Fail.

Definition h_commit (s : state) (x : uref) : state * outcome uuid :=
  match node_gate s x false with
  | Done u =>
    match locked_uuid s u with
    | Done false => let (s1, r) := do_commit s u in (s1, obind r (fun _ => Done u))
    | Done true => (s, Fail)
    | o => (s, recast o)
    end
  | o => (s, recast o)
  end.

Definition h_new_version (fx : fixes) (s : state) (x : uref) (assign : string) (fresh : uuid)
  : state * outcome uuid :=
  match node_gate s x true with
  | Done u =>
    match parse_assign assign with
    | Done a => do_new_version fx s u "" a fresh
    | o => (s, recast o)
    end
  | o => (s, recast o)
  end.

Definition h_branch (fx : fixes) (s : state) (x : uref) (branch assign : string) (fresh : uuid)
  : state * outcome uuid :=
  match node_gate s x true with
  | Done u =>
    match parse_assign assign with
    | Done a =>
      if in_list branch l_branch_refused then (s, Fail)     (* "" and "master" *)
      else do_new_version fx s u branch a fresh
    | o => (s, recast o)
    end
  | o => (s, recast o)
  end.

(* repoTagHandler: the tag string becomes the UUID without any check; the commit that follows is
   not guarded by the outcome of NewVersion (as found), and its own error arrives after the
   response status has been written *)
Definition h_tag (fx : fixes) (s : state) (x : uref) (tag : string) : state * outcome uuid :=
  match node_gate s x true with
  | Done u =>
    let (s1, r) := do_new_version fx s u (s_tag_prefix ++ tag) (Some tag) "" in
    match r with
    | Done c => (fst (do_commit s1 tag), Done c)
    | o => if fx_tag_return fx then (s1, o) else (fst (do_commit s1 tag), o)
    end
  | o => (s, recast o)
  end.

Definition h_merge (fx : fixes) (s : state) (x : uref) (mtype_ok : bool) (parents : list uref)
           (fresh : uuid) : state * outcome uuid :=
  match repo_gate s x with
  | Done _ =>
    if (length parents <? 2)%nat then (s, Fail) else
    match match_all s parents with
    | Done ps => if negb mtype_ok then (s, Fail) else do_merge fx s ps fresh
    | o => (s, recast o)
    end
  | o => (s, recast o)
  end.

(* repoResolveHandler.  [data]: the instance names of the request, each with the parents (by
   position) for which DeleteConflicts found keys to delete, in the order it met them, and the
   UUID generated for the node that receives the deletions. *)
Definition extension_of (ext : list (uuid * uuid)) (old : uuid) : option uuid :=
  option_map snd (List.find (fun x => String.eqb (fst x) old) ext).

Fixpoint resolve_extend (fx : fixes) (s : state) (olds : list uuid) (ext : list (uuid * uuid))
         (conf : list (nat * uuid)) : state * list (uuid * uuid) :=
  match conf with
  | [] => (s, ext)
  | (k, fresh) :: rest =>
    match nth_error olds k with
    | None => resolve_extend fx s olds ext rest
    | Some old =>
      match extension_of ext old with
      | Some _ => resolve_extend fx s olds ext rest
      | None =>
        match do_new_version fx s old (s_conflict_prefix ++ old) None fresh with
        | (s1, Done cu) => resolve_extend fx s1 olds ((old, cu) :: ext) rest
        | (s1, _) => resolve_extend fx s1 olds ext rest       (* the error is only logged *)
        end
      end
    end
  end.

Fixpoint resolve_data (fx : fixes) (s : state) (u : uuid) (olds : list uuid) (ext : list (uuid * uuid))
         (data : list (string * list (nat * uuid))) : state * option (list (uuid * uuid)) :=
  match data with
  | [] => (s, Some ext)
  | (name, conf) :: rest =>
    match repo_by_uuid s u with
    | Some r =>
      if in_list name (r_data r) then
        let (s1, ext1) := resolve_extend fx s olds ext conf in
        resolve_data fx s1 u olds ext1 rest
      else (s, None)
    | None => (s, None)
    end
  end.

Fixpoint commit_extensions (s : state) (olds news : list uuid) : state * bool :=
  match olds, news with
  | o :: olds', n :: news' =>
    if String.eqb o n then commit_extensions s olds' news'
    else match do_commit s n with
         | (s1, Done _) => commit_extensions s1 olds' news'
         | (s1, _) => (s1, false)
         end
  | _, _ => (s, true)
  end.

Definition resolve_prevalidated (s : state) (u : uuid) (olds : list uuid) (names : list string) : bool :=
  match repo_by_uuid s u, olds with
  | Some ru, p0 :: _ =>
    forallb (fun nm => in_list nm (r_data ru)) names &&
    match repo_by_uuid s p0 with
    | Some r => match validate_parents s r olds with
                | Some vs => bool_decide (NoDup vs)
                | None => false
                end
    | None => false
    end
  | _, _ => false
  end.

Definition h_resolve (fx : fixes) (s : state) (x : uref) (data : list (string * list (nat * uuid)))
           (parents : list uref) (fresh : uuid) : state * outcome uuid :=
  match repo_gate s x with
  | Done u =>
    match data with
    | [] => (s, Fail)
    | _ =>
      if (length parents <? 2)%nat then (s, Fail) else
      match match_all s parents with
      | Done olds =>
        if fx_resolve_validate fx && negb (resolve_prevalidated s u olds (List.map fst data)) then (s, Fail) else
        match resolve_data fx s u olds [] data with
        | (s1, None) => (s1, Fail)
        | (s1, Some ext) =>
          let news := List.map (fun o => match extension_of ext o with Some e => e | None => o end) olds in
          match commit_extensions s1 olds news with
          | (s2, false) => (s2, Fail)
          | (s2, true) => do_merge fx s2 news fresh
          end
        end
      | o => (s, recast o)
      end
    end
  | o => (s, recast o)
  end.

Definition h_node_post (s : state) (x : uref) : state * outcome uuid := (s, node_gate s x false).
Definition h_repo_post (s : state) (x : uref) : state * outcome uuid := (s, repo_gate s x).

Definition h_new_data (s : state) (x : uref) (type_ok : bool) (name : string) : state * outcome uuid :=
  match repo_gate s x with
  | Done u =>
    match locked_uuid s u with
    | Done false => if negb type_ok then (s, Fail) else do_new_data s u name
    | Done true => (s, Fail)
    | o => (s, recast o)
    end
  | o => (s, recast o)
  end.

(* RPC commands: MatchingUUID on the argument, then the datastore call *)
Definition h_rpc (s : state) (x : uref) (f : uuid -> state * outcome uuid) : state * outcome uuid :=
  match matching s x with
  | Done u => f u
  | o => (s, recast o)
  end.

(* ---- requests ---- *)
Inductive req :=
| RNewRepo (root : option string) (pass : string) (fresh : uuid)    (* POST /api/repos *)
| RCommit (u : uref)                                                (* POST /api/node/u/commit *)
| RNewVersion (u : uref) (assign : string) (fresh : uuid)           (* POST /api/node/u/newversion *)
| RBranch (u : uref) (branch assign : string) (fresh : uuid)        (* POST /api/node/u/branch *)
| RTag (u : uref) (tag : string)                                    (* POST /api/node/u/tag *)
| RMerge (u : uref) (mtype_ok : bool) (parents : list uref) (fresh : uuid)   (* POST /api/repo/u/merge *)
| RResolve (u : uref) (data : list (string * list (nat * uuid))) (parents : list uref) (fresh : uuid)
| RNodeNote (u : uref)                                              (* POST /api/node/u/note *)
| RNodeLog (u : uref)                                               (* POST /api/node/u/log *)
| RRepoLog (u : uref)                                               (* POST /api/repo/u/log *)
| RNewData (u : uref) (type_ok : bool) (name : string)              (* POST /api/repo/u/instance *)
| RRenameData (u : uref) (old new pass : string)                    (* rpc: repo u rename *)
| RDeleteData (u : uref) (name pass : string)                       (* rpc: repo u delete *)
| RDeleteRepo (u : uref) (pass : string).                           (* rpc: repos delete *)

Definition step (fx : fixes) (s : state) (r : req) : state * outcome uuid :=
  match r with
  | RNewRepo root pass fresh => do_new_repo fx s root pass fresh
  | RCommit u => h_commit s u
  | RNewVersion u a fresh => h_new_version fx s u a fresh
  | RBranch u b a fresh => h_branch fx s u b a fresh
  | RTag u t => h_tag fx s u t
  | RMerge u mt ps fresh => h_merge fx s u mt ps fresh
  | RResolve u d ps fresh => h_resolve fx s u d ps fresh
  | RNodeNote u | RNodeLog u => h_node_post s u
  | RRepoLog u => h_repo_post s u
  | RNewData u t n => h_new_data s u t n
  | RRenameData u o n p => h_rpc s u (fun uu => do_rename_data s uu o n p)
  | RDeleteData u n p => h_rpc s u (fun uu => do_delete_data s uu n p)
  | RDeleteRepo u p => h_rpc s u (fun uu => do_delete_repo s uu p)
  end.

Definition run (fx : fixes) (s : state) (rs : list req) : state :=
  fold_left (fun s r => fst (step fx s r)) rs s.
