(* Model.ROIPart: what `GET <roi>/partition?batchsize=N` (roi.SimplePartition, datatype/roi/roi.go:1244,
   addSubvolumesGrid :1182) reports, and the decidable form of "the subvolumes tile the blocks of
   the ROI, no block in two subvolumes" that the run checker evaluates on the reply (C18, round 4).
   Definitions only. *)
From DV Require Import Base.Prelude Base.WrapZ Model.Geometry Model.ROI.
Local Open Scope Z_scope.

(* one reported subvolume: MinChunk, MaxChunk (block coordinates, inclusive), TotalBlocks, ActiveBlocks *)
Record subvol : Type := SV { vmin : pt; vmax : pt; vtotal : Z; vactive : Z }.

Definition box_has (v : subvol) (b : pt) : bool :=
  (px (vmin v) <=? px b) && (px b <=? px (vmax v)) && (py (vmin v) <=? py b) && (py b <=? py (vmax v))
  && (pz (vmin v) <=? pz b) && (pz b <=? pz (vmax v)).
Definition box_overlap (v w : subvol) : bool :=
  (px (vmin v) <=? px (vmax w)) && (px (vmin w) <=? px (vmax v))
  && (py (vmin v) <=? py (vmax w)) && (py (vmin w) <=? py (vmax v))
  && (pz (vmin v) <=? pz (vmax w)) && (pz (vmin w) <=? pz (vmax v)).
Definition box_volume (v : subvol) : Z :=
  (px (vmax v) - px (vmin v) + 1) * (py (vmax v) - py (vmin v) + 1) * (pz (vmax v) - pz (vmin v) + 1).

Fixpoint boxes_disjointb (vs : list subvol) : bool :=
  match vs with
  | [] => true
  | v :: t => forallb (fun w => negb (box_overlap v w)) t && boxes_disjointb t
  end.

(* the blocks of a span set, written out *)
Definition span_blocks (s : span) : list pt :=
  map (fun i => (sx0 s + Z.of_nat i, sy s, sz s)) (seq 0 (Z.to_nat (sx1 s - sx0 s + 1))).
Definition roi_blocks (l : list span) : list pt := flat_map span_blocks l.

Definition owners (vs : list subvol) (b : pt) : list subvol := filter (fun v => box_has v b) vs.

(* every block of the ROI lies in exactly one subvolume *)
Definition tiles_ok (spans : list span) (vs : list subvol) : bool :=
  forallb (fun b => Nat.eqb (length (owners vs b)) 1) (roi_blocks spans).
(* TotalBlocks is the volume of the box, ActiveBlocks the number of ROI blocks in it *)
Definition counts_ok (spans : list span) (vs : list subvol) : bool :=
  forallb (fun v => (vtotal v =? box_volume v)
                    && (vactive v =? Z.of_nat (length (filter (box_has v) (roi_blocks spans))))) vs.

Definition span_overlapb (a b : span) : bool :=
  (sz a =? sz b) && (sy a =? sy b) && (sx0 a <=? sx1 b) && (sx0 b <=? sx1 a).
Fixpoint spans_disjointb (l : list span) : bool :=
  match l with [] => true | s :: t => negb (existsb (span_overlapb s) t) && spans_disjointb t end.

(* the ROI (spans in z order) skips more than [bsz] block layers somewhere *)
Fixpoint has_z_gap (bsz : Z) (l : list span) : bool :=
  match l with
  | a :: ((b :: _) as t) => (bsz <? sz b - sz a) || has_z_gap bsz t
  | _ => false
  end.
