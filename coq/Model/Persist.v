(* Model.Persist: the persisted metadata image of datastore/repo_local.go, the ordered list of
   key-value writes each repo-level operation issues, and start-up recovery (definitions only).

   Metadata keys (repo_local.go:50-59; class bytes: Gen/Consts.v, names n_md_...):
     repoToUUID (1)  versionToUUID (2)  newIDs (3)  repo blob per repo id (4)  format (5)
     mutation id per repo id (7)
   Writers:  putNewIDs :456  putCaches :467 (two Puts)  repoT.saveToStore :2695  repoT.delete :2716
             initMutationID :2724  newMutationID :2757  Initialize :70-118
   Reader:   loadMetadata :746  loadVersion0 :485  loadNewIDs :438

   Identity is abstract: uuids, instance names and branch names are numbers (the driver maps the
   strings of a workload to numbers; uuids never occur in an observation).  The in-memory manager is
   this work package's own minimal notion ([pmgr]); request semantics beyond what decides WHICH
   writes are issued are the business of Model.Repo (C07). *)
From DV Require Import Base.Prelude.
Local Open Scope N_scope.

Notation uuid := N (only parsing).

(* ---- association lists kept sorted by key (one canonical list per finite map) ---- *)
Section AMap.
  Context {V : Type}.
  Fixpoint aget (k : N) (m : list (N * V)) : option V :=
    match m with
    | [] => None
    | (k', v) :: r => if k =? k' then Some v else aget k r
    end.
  Fixpoint aset (k : N) (v : V) (m : list (N * V)) : list (N * V) :=
    match m with
    | [] => [(k, v)]
    | (k', v') :: r =>
      if k <? k' then (k, v) :: m
      else if k =? k' then (k, v) :: r
      else (k', v') :: aset k v r
    end.
  Fixpoint adel (k : N) (m : list (N * V)) : list (N * V) :=
    match m with
    | [] => []
    | (k', v') :: r => if k =? k' then adel k r else (k', v') :: adel k r
    end.
  Definition amem (k : N) (m : list (N * V)) : bool :=
    match aget k m with Some _ => true | None => false end.
  Definition akeys (m : list (N * V)) : list N := map fst m.
End AMap.

Definition all_lt (l : list N) (b : N) : bool := forallb (fun x => x <? b) l.

(* ---- a repo as serialised into its blob ---- *)
Record pnode := {
  pn_uuid : N;
  pn_parents : list N;      (* version ids, parents[0] first *)
  pn_children : list N;
  pn_locked : bool;
  pn_branch : N             (* 0 = "" (master) *)
}.

Record prepo := {
  pr_id : N;
  pr_root : N;              (* root uuid *)
  pr_rootv : N;             (* root version *)
  pr_nodes : list (N * pnode);   (* by version id *)
  pr_data : list (N * N)    (* instance name -> instance id *)
}.

Definition repo_versions (r : prepo) : list N := akeys (pr_nodes r).
Definition repo_iids (r : prepo) : list N := map snd (pr_data r).

(* ---- the persisted image ---- *)
Record image := {
  i_r2u : option (list (N * N));      (* None: key absent *)
  i_v2u : option (list (N * N));
  i_ids : option (N * N * N);         (* next repo id, version id, instance id *)
  i_repos : list (N * prepo);
  i_mut : list (N * N);               (* persisted mutation-id bound per repo id *)
  i_fmt : option N
}.

Definition empty_image : image :=
  {| i_r2u := None; i_v2u := None; i_ids := None; i_repos := []; i_mut := []; i_fmt := None |}.

Inductive pwrite :=
| WR2U (m : list (N * N))
| WV2U (m : list (N * N))
| WIDs (r v i : N)
| WRepo (id : N) (b : prepo)
| WDelRepo (id : N)
| WMut (id n : N)
| WFmt (n : N).

Definition apply_w (img : image) (w : pwrite) : image :=
  match w with
  | WR2U m => {| i_r2u := Some m; i_v2u := i_v2u img; i_ids := i_ids img; i_repos := i_repos img; i_mut := i_mut img; i_fmt := i_fmt img |}
  | WV2U m => {| i_r2u := i_r2u img; i_v2u := Some m; i_ids := i_ids img; i_repos := i_repos img; i_mut := i_mut img; i_fmt := i_fmt img |}
  | WIDs r v i => {| i_r2u := i_r2u img; i_v2u := i_v2u img; i_ids := Some (r, v, i); i_repos := i_repos img; i_mut := i_mut img; i_fmt := i_fmt img |}
  | WRepo id b => {| i_r2u := i_r2u img; i_v2u := i_v2u img; i_ids := i_ids img; i_repos := aset id b (i_repos img); i_mut := i_mut img; i_fmt := i_fmt img |}
  | WDelRepo id => {| i_r2u := i_r2u img; i_v2u := i_v2u img; i_ids := i_ids img; i_repos := adel id (i_repos img); i_mut := i_mut img; i_fmt := i_fmt img |}
  | WMut id n => {| i_r2u := i_r2u img; i_v2u := i_v2u img; i_ids := i_ids img; i_repos := i_repos img; i_mut := aset id n (i_mut img); i_fmt := i_fmt img |}
  | WFmt n => {| i_r2u := i_r2u img; i_v2u := i_v2u img; i_ids := i_ids img; i_repos := i_repos img; i_mut := i_mut img; i_fmt := Some n |}
  end.

Definition apply_ws (img : image) (ws : list pwrite) : image := fold_left apply_w ws img.

(* the key class a write goes to (the tie to the implementation's write trace) *)
Definition wkind (w : pwrite) : N :=
  match w with
  | WR2U _ => 1 | WV2U _ => 2 | WIDs _ _ _ => 3 | WRepo _ _ => 4 | WDelRepo _ => 4 | WFmt _ => 5 | WMut _ _ => 7
  end.
Definition is_blob_write (w : pwrite) : bool :=
  match w with WRepo _ _ | WDelRepo _ => true | _ => false end.

(* ---- the in-memory manager ---- *)
Record pmgr := {
  m_r2u : list (N * N);
  m_v2u : list (N * N);
  m_rid : N; m_vid : N; m_iid : N;
  m_repos : list (N * prepo);            (* by repo id *)
  m_mut : list (N * (N * N));            (* repo id -> (mutCurID, mutSavedID) *)
  m_heads : list (N * list (N * N))      (* repo id -> branch -> head version (branchToUUID) *)
}.

Record pconf := { c_mut_start : N; c_stride : N; c_inst_start : N }.

Definition upd_repo (m : pmgr) (id : N) (r : prepo) : pmgr :=
  {| m_r2u := m_r2u m; m_v2u := m_v2u m; m_rid := m_rid m; m_vid := m_vid m; m_iid := m_iid m;
     m_repos := aset id r (m_repos m); m_mut := m_mut m; m_heads := m_heads m |}.

Definition set_head (m : pmgr) (id br v : N) : pmgr :=
  let hs := match aget id (m_heads m) with Some h => h | None => [] end in
  {| m_r2u := m_r2u m; m_v2u := m_v2u m; m_rid := m_rid m; m_vid := m_vid m; m_iid := m_iid m;
     m_repos := m_repos m; m_mut := m_mut m; m_heads := aset id (aset br v hs) (m_heads m) |}.

(* newUUID (:888): map entries, counter, putCaches (2 Puts), putNewIDs *)
Definition new_uuid (m : pmgr) (u : N) : pmgr * N * list pwrite :=
  let v := m_vid m in
  let v2u := aset v u (m_v2u m) in
  let m' := {| m_r2u := m_r2u m; m_v2u := v2u; m_rid := m_rid m; m_vid := v + 1; m_iid := m_iid m;
               m_repos := m_repos m; m_mut := m_mut m; m_heads := m_heads m |} in
  (m', v, [WR2U (m_r2u m); WV2U v2u; WIDs (m_rid m) (v + 1) (m_iid m)]).

Definition mk_node (u : N) (parents : list N) (br : N) : pnode :=
  {| pn_uuid := u; pn_parents := parents; pn_children := []; pn_locked := false; pn_branch := br |}.

Definition add_child (n : pnode) (c : N) : pnode :=
  {| pn_uuid := pn_uuid n; pn_parents := pn_parents n; pn_children := pn_children n ++ [c];
     pn_locked := pn_locked n; pn_branch := pn_branch n |}.
Definition add_parent (n : pnode) (p : N) : pnode :=
  {| pn_uuid := pn_uuid n; pn_parents := pn_parents n ++ [p]; pn_children := pn_children n;
     pn_locked := pn_locked n; pn_branch := pn_branch n |}.
Definition lock_node (n : pnode) : pnode :=
  {| pn_uuid := pn_uuid n; pn_parents := pn_parents n; pn_children := pn_children n;
     pn_locked := true; pn_branch := pn_branch n |}.

Definition set_nodes (r : prepo) (ns : list (N * pnode)) : prepo :=
  {| pr_id := pr_id r; pr_root := pr_root r; pr_rootv := pr_rootv r; pr_nodes := ns; pr_data := pr_data r |}.
Definition set_data (r : prepo) (d : list (N * N)) : prepo :=
  {| pr_id := pr_id r; pr_root := pr_root r; pr_rootv := pr_rootv r; pr_nodes := pr_nodes r; pr_data := d |}.

(* ---- operations ---- *)
Inductive pop :=
| PNewRepo (u : N)
| PNewVersion (rid parent : N) (branch : option N) (u : N)
| PMerge (rid : N) (parents : list N) (u : N)
| PCommit (rid v : N)
| PNewData (rid name : N)
| PDeleteData (rid name : N)
| PDeleteRepo (rid : N)
| PNewMutID (rid : N).

(* newRepo (:1104): newUUID; newRepoID (+putNewIDs); repoToUUID entry + putCaches; blob; mutation id *)
Definition op_new_repo (C : pconf) (m : pmgr) (u : N) : pmgr * list pwrite :=
  let '(m1, v, w1) := new_uuid m u in
  let id := m_rid m1 in
  let w2 := [WIDs (id + 1) (m_vid m1) (m_iid m1)] in
  let r2u := aset id u (m_r2u m1) in
  let w3 := [WR2U r2u; WV2U (m_v2u m1)] in
  let r := {| pr_id := id; pr_root := u; pr_rootv := v; pr_nodes := [(v, mk_node u [] 0)]; pr_data := [] |} in
  let saved := c_mut_start C + c_stride C in
  let m2 := {| m_r2u := r2u; m_v2u := m_v2u m1; m_rid := id + 1; m_vid := m_vid m1; m_iid := m_iid m1;
               m_repos := aset id r (m_repos m1);
               m_mut := aset id (c_mut_start C, saved) (m_mut m1);
               m_heads := aset id [(0, v)] (m_heads m1) |} in
  (m2, w1 ++ w2 ++ w3 ++ [WRepo id r; WMut id saved]).

(* newVersion (:1798): all refusals precede the first write *)
Definition op_new_version (m : pmgr) (rid parent : N) (branch : option N) (u : N) : pmgr * list pwrite :=
  match aget rid (m_repos m) with
  | None => (m, [])
  | Some r =>
    match aget parent (pr_nodes r) with
    | None => (m, [])
    | Some pn =>
      if negb (pn_locked pn) then (m, []) else
      let same := match branch with None => true | Some b => b =? pn_branch pn end in
      let br := if same then pn_branch pn else match branch with Some b => b | None => 0 end in
      let clash :=
        if same then
          existsb (fun c => match aget c (pr_nodes r) with
                            | Some cn => pn_branch cn =? br
                            | None => true                      (* "cannot find sibling nodes" *)
                            end) (pn_children pn)
        else existsb (fun x => pn_branch (snd x) =? br) (pr_nodes r) in
      if clash then (m, []) else
      let '(m1, cv, w1) := new_uuid m u in
      let ns := aset cv (mk_node u [parent] br) (aset parent (add_child pn cv) (pr_nodes r)) in
      let r' := set_nodes r ns in
      let m2 := set_head (upd_repo m1 rid r') rid br cv in
      (m2, w1 ++ [WRepo rid r'])
    end
  end.

(* merge (:1899): the child is created (newUUID: three writes) and inserted BEFORE the parents are
   validated; a refused merge leaves it in memory, to be persisted by the repo's next save *)
Fixpoint link_parents (ns : list (N * pnode)) (cv : N) (parents : list N) : list (N * pnode) * bool :=
  match parents with
  | [] => (ns, true)
  | p :: rest =>
    match aget p ns with
    | None => (ns, false)
    | Some pn =>
      if negb (pn_locked pn) then (ns, false) else
      let ns1 := aset p (add_child pn cv) ns in
      let ns2 := match aget cv ns1 with
                 | Some cn => aset cv (add_parent cn p) ns1
                 | None => ns1
                 end in
      link_parents ns2 cv rest
    end
  end.

Definition op_merge (m : pmgr) (rid : N) (parents : list N) (u : N) : pmgr * list pwrite :=
  match parents with
  | [] | [_] => (m, [])
  | _ =>
    match aget rid (m_repos m) with
    | None => (m, [])
    | Some r =>
      let '(m1, cv, w1) := new_uuid m u in
      let ns0 := aset cv (mk_node u [] 0) (pr_nodes r) in
      let '(ns, ok) := link_parents ns0 cv parents in
      let r' := set_nodes r ns in
      let m2 := upd_repo m1 rid r' in
      if ok then (m2, w1 ++ [WRepo rid r']) else (m2, w1)
    end
  end.

(* commit (:1640) *)
Definition op_commit (m : pmgr) (rid v : N) : pmgr * list pwrite :=
  match aget rid (m_repos m) with
  | None => (m, [])
  | Some r =>
    match aget v (pr_nodes r) with
    | None => (m, [])
    | Some n =>
      if pn_locked n then (m, []) else
      let r' := set_nodes r (aset v (lock_node n) (pr_nodes r)) in
      (upd_repo m rid r', [WRepo rid r'])
    end
  end.

(* newData (:2091): the instance id is allocated and persisted first, then the name is checked *)
Definition op_new_data (m : pmgr) (rid name : N) : pmgr * list pwrite :=
  let iid := m_iid m in
  let m1 := {| m_r2u := m_r2u m; m_v2u := m_v2u m; m_rid := m_rid m; m_vid := m_vid m; m_iid := iid + 1;
               m_repos := m_repos m; m_mut := m_mut m; m_heads := m_heads m |} in
  let w1 := [WIDs (m_rid m) (m_vid m) (iid + 1)] in
  match aget rid (m_repos m) with
  | None => (m1, w1)
  | Some r =>
    if amem name (pr_data r) then (m1, w1) else
    let r' := set_data r (aset name iid (pr_data r)) in
    (upd_repo m1 rid r', w1 ++ [WRepo rid r'])
  end.

(* deleteData (:2296, :2404): the instance leaves the blob in one save, after the asynchronous
   deletion of its key-values (which is not part of the metadata image) *)
Definition op_delete_data (m : pmgr) (rid name : N) : pmgr * list pwrite :=
  match aget rid (m_repos m) with
  | None => (m, [])
  | Some r =>
    if negb (amem name (pr_data r)) then (m, []) else
    let r' := set_data r (adel name (pr_data r)) in
    (upd_repo m rid r', [WRepo rid r'])
  end.

(* deleteRepo: the blob is deleted, the id maps are edited in memory and then saved (putCaches) *)
Definition op_delete_repo (m : pmgr) (rid : N) : pmgr * list pwrite :=
  match aget rid (m_repos m) with
  | None => (m, [])
  | Some r =>
    let v2u := fold_left (fun acc v => adel v acc) (repo_versions r) (m_v2u m) in
    ({| m_r2u := adel rid (m_r2u m); m_v2u := v2u; m_rid := m_rid m; m_vid := m_vid m; m_iid := m_iid m;
        m_repos := adel rid (m_repos m); m_mut := adel rid (m_mut m); m_heads := adel rid (m_heads m) |},
     [WDelRepo rid; WR2U (adel rid (m_r2u m)); WV2U v2u])
  end.

(* newMutationID (:2757) *)
Definition op_new_mutid (C : pconf) (m : pmgr) (rid : N) : pmgr * list pwrite * option N :=
  match aget rid (m_mut m) with
  | None => (m, [], None)
  | Some (cur, saved) =>
    let cur' := cur + 1 in
    let bump := saved <=? cur' in
    let saved' := if bump then saved + c_stride C else saved in
    ({| m_r2u := m_r2u m; m_v2u := m_v2u m; m_rid := m_rid m; m_vid := m_vid m; m_iid := m_iid m;
        m_repos := m_repos m; m_mut := aset rid (cur', saved') (m_mut m); m_heads := m_heads m |},
     if bump then [WMut rid saved'] else [], Some cur)
  end.

Definition pstep (C : pconf) (m : pmgr) (o : pop) : pmgr * list pwrite :=
  match o with
  | PNewRepo u => op_new_repo C m u
  | PNewVersion rid p b u => op_new_version m rid p b u
  | PMerge rid ps u => op_merge m rid ps u
  | PCommit rid v => op_commit m rid v
  | PNewData rid name => op_new_data m rid name
  | PDeleteData rid name => op_delete_data m rid name
  | PDeleteRepo rid => op_delete_repo m rid
  | PNewMutID rid => fst (op_new_mutid C m rid)
  end.

(* ---- start-up ---- *)

(* a store without any metadata key is initialised (badger.metadataExists, Initialize :106-118) *)
Definition no_metadata (img : image) : bool :=
  match i_r2u img, i_v2u img, i_ids img, i_repos img, i_mut img, i_fmt img with
  | None, None, None, [], [], None => true
  | _, _, _, _, _, _ => false
  end.

Definition init_mgr (C : pconf) : pmgr :=
  {| m_r2u := []; m_v2u := []; m_rid := 1; m_vid := 1;
     m_iid := if 1 <? c_inst_start C then c_inst_start C else 1;
     m_repos := []; m_mut := []; m_heads := [] |}.

Definition init_writes (C : pconf) : list pwrite :=
  let m := init_mgr C in [WIDs (m_rid m) (m_vid m) (m_iid m); WR2U []; WV2U []; WFmt 1].

(* "Version id found in repo not in cache map. Adding it..." (:540-:549) *)
Definition repair_v2u (repos : list (N * prepo)) (v2u : list (N * N)) : list (N * N) :=
  fold_left (fun acc ib =>
               fold_left (fun acc vn => if amem (fst vn) acc then acc else aset (fst vn) (pn_uuid (snd vn)) acc)
                         (pr_nodes (snd ib)) acc)
            repos v2u.

(* branchHeads (:2392): leaves by branch; when a branch has several leaves the one met last in
   map-iteration order wins there, and the FIRST met wins in loadMetadata (:785-:790) — the model
   takes ascending version order for both and keeps the first *)
Definition leaf_heads (r : prepo) : list (N * N) :=
  fold_left (fun acc vn =>
               match pn_children (snd vn) with
               | [] => if amem (pn_branch (snd vn)) acc then acc else aset (pn_branch (snd vn)) (fst vn) acc
               | _ => acc
               end) (pr_nodes r) [].

(* all leaves of a branch: used to detect the ambiguous case *)
Definition branch_leaves (r : prepo) (br : N) : list N :=
  map fst (filter (fun vn => match pn_children (snd vn) with [] => pn_branch (snd vn) =? br | _ => false end) (pr_nodes r)).

(* the version id names a node of some loaded repo *)
Definition version_live (repos : list (N * prepo)) (v : N) : bool :=
  existsb (fun ib => existsb (N.eqb v) (repo_versions (snd ib))) repos.

Definition max_key {V} (m : list (N * V)) : N := fold_left (fun a kv => N.max a (fst kv)) m 0.

(* loadMetadata / loadVersion0.  The result carries the writes recovery itself issues, in order:
   putCaches if a cache entry was missing or stale, the format key, one mutation-id record per
   repo (initMutationID persists cur + stride), putNewIDs if a counter was corrected. *)
Definition recover (C : pconf) (img : image) : res (pmgr * list pwrite) :=
  if no_metadata img then Ok (init_mgr C, init_writes C) else
  let fmt := match i_fmt img with Some f => f | None => 0 end in
  if 1 <? fmt then Err else                                          (* unknown metadata format *)
  match i_ids img with
  | None => Err                                                      (* "bad value returned for new ids" *)
  | Some (rid, vid, iid) =>
    let r2u := match i_r2u img with Some m => m | None => [] end in
    let v2u := match i_v2u img with Some m => m | None => [] end in
    if negb (forallb (fun ib => amem (fst ib) r2u) (i_repos img)) then Err   (* "repo with id not in map. Corrupt DB?" *)
    else
      let v2u1 := repair_v2u (i_repos img) v2u in
      let r2u' := filter (fun iu => amem (fst iu) (i_repos img)) r2u in      (* "Found empty repo id ... deleting" *)
      let v2u' := filter (fun vu => version_live (i_repos img) (fst vu)) v2u1 in   (* "Found version id ... that is in no repo... deleting" *)
      let save_cache := negb (Nat.eqb (length r2u') (length r2u)) || negb (Nat.eqb (length v2u1) (length v2u))
                        || negb (Nat.eqb (length v2u') (length v2u1)) in
      let w1 := if save_cache then [WR2U r2u'; WV2U v2u'] else [] in
      let w2 := if fmt =? 1 then [] else [WFmt 1] in
      let muts := map (fun iu =>
                         let cur0 := match aget (fst iu) (i_mut img) with Some x => x | None => 0 end in
                         let cur := if cur0 <? c_mut_start C then c_mut_start C else cur0 in
                         (fst iu, (cur, cur + c_stride C))) r2u' in
      let w3 := map (fun x => WMut (fst x) (snd (snd x))) muts in
      let iid' := if iid <? c_inst_start C then c_inst_start C else iid in
      let mx := max_key v2u' in
      let vid' := if vid <? mx then mx + 1 else vid in                       (* "v > m.versionID", as written *)
      let save_ids := (iid <? c_inst_start C) || (vid <? mx) in
      let w4 := if save_ids then [WIDs rid vid' iid'] else [] in
      Ok ({| m_r2u := r2u'; m_v2u := v2u'; m_rid := rid; m_vid := vid'; m_iid := iid';
             m_repos := i_repos img; m_mut := muts;
             m_heads := map (fun ib => (fst ib, leaf_heads (snd ib))) (i_repos img) |},
          w1 ++ w2 ++ w3 ++ w4)
  end.

(* ---- what a client can see of the metadata, and well-formedness of a manager ---- *)
Definition pobserve (m : pmgr) : list (N * prepo) := m_repos m.

Definition repo_fresh (rid vid iid : N) (ib : N * prepo) : bool :=
  (fst ib <? rid) && all_lt (repo_versions (snd ib)) vid && all_lt (repo_iids (snd ib)) iid.

(* every repo is registered, and every id in use lies below the counter that issues new ones *)
Definition pwf (m : pmgr) : bool :=
  forallb (fun ib => amem (fst ib) (m_r2u m) && repo_fresh (m_rid m) (m_vid m) (m_iid m) ib) (m_repos m)
  && all_lt (akeys (m_r2u m)) (m_rid m).

(* the corresponding condition on an image: what makes recovery succeed and be well formed *)
Definition img_ok (img : image) : bool :=
  match i_ids img with
  | None => false
  | Some (rid, vid, iid) =>
    let r2u := match i_r2u img with Some m => m | None => [] end in
    forallb (fun ib => amem (fst ib) r2u && repo_fresh rid vid iid ib) (i_repos img)
    && all_lt (akeys r2u) rid
    && match i_fmt img with Some f => f <=? 1 | None => true end
  end.

(* a write that keeps an image recoverable *)
Definition wsafe (img : image) (w : pwrite) : bool :=
  match i_ids img with
  | None => false
  | Some (rid, vid, iid) =>
    match w with
    | WR2U m => forallb (fun ib => amem (fst ib) m) (i_repos img) && all_lt (akeys m) rid
    | WV2U _ => true
    | WIDs r v i => (rid <=? r) && (vid <=? v) && (iid <=? i)
    | WRepo id b =>
      amem id (match i_r2u img with Some m => m | None => [] end) && repo_fresh rid vid iid (id, b)
    | WDelRepo _ => true
    | WMut _ _ => true
    | WFmt n => n <=? 1
    end
  end.

Fixpoint all_safe (img : image) (ws : list pwrite) : bool :=
  match ws with
  | [] => true
  | w :: r => wsafe img w && all_safe (apply_w img w) r
  end.

(* run a history of operations with full write lists (no crash) *)
Fixpoint prun (C : pconf) (m : pmgr) (ops : list pop) : pmgr * list (list pwrite) :=
  match ops with
  | [] => (m, [])
  | o :: r => let '(m1, ws) := pstep C m o in
              let '(m2, wss) := prun C m1 r in (m2, ws :: wss)
  end.

(* ---- the invariant tying an in-memory manager to the image it persists into ---- *)
Definition r2u_of (img : image) : list (N * N) := match i_r2u img with Some m => m | None => [] end.

Definition pinv (m : pmgr) (img : image) : bool :=
  pwf m && img_ok img
  && match i_ids img with
     | Some (r, v, i) => (r =? m_rid m) && (v =? m_vid m) && (i =? m_iid m)
     | None => false
     end
  && forallb (fun ib => amem (fst ib) (m_r2u m)) (i_repos img)
  && forallb (fun ib => amem (fst ib) (r2u_of img)) (m_repos m).

Definition blob_writes (ws : list pwrite) : nat := length (filter is_blob_write ws).

(* zero or more start-ups that were themselves killed after some of their writes *)
Inductive rec_chain (C : pconf) : image -> image -> Prop :=
| RC_refl img : rec_chain C img img
| RC_step img m wr j img2 :
    recover C img = Ok (m, wr) -> rec_chain C (apply_ws img (firstn j wr)) img2 -> rec_chain C img img2.

(* every (manager, image) pair that histories of operations, crashes at any write, and restarts
   (themselves crashing any number of times) can produce *)
Inductive preach (C : pconf) : pmgr -> image -> Prop :=
| R_init m wr img0 :
    rec_chain C empty_image img0 -> recover C img0 = Ok (m, wr) -> preach C m (apply_ws img0 wr)
| R_step m img o :
    preach C m img -> preach C (fst (pstep C m o)) (apply_ws img (snd (pstep C m o)))
| R_crash m img o k img2 mr wr :
    preach C m img ->
    rec_chain C (apply_ws img (firstn k (snd (pstep C m o)))) img2 ->
    recover C img2 = Ok (mr, wr) ->
    preach C mr (apply_ws img2 wr).

(* ---- instance deletion including the data store (repo_local.go:2296, :2404) ----
   deleteData marks the instance deleted IN MEMORY ONLY (the flag is not part of the blob,
   datainstance.go:780), deletes its key-values (storage.DeleteDataInstance -> DeleteAll, flushed in
   batches) and only then saves the repo without the instance.  The extended image adds, per
   instance id, the number of key-values stored. *)
Record ximage := { x_meta : image; x_kv : list (N * N) }.

Inductive xwrite :=
| XMeta (w : pwrite)
| XDeleteBatch (iid n : N).       (* one flushed batch of DeleteAll: n key-values of instance iid removed *)

Definition apply_x (x : ximage) (w : xwrite) : ximage :=
  match w with
  | XMeta w => {| x_meta := apply_w (x_meta x) w; x_kv := x_kv x |}
  | XDeleteBatch iid n =>
    let have := match aget iid (x_kv x) with Some c => c | None => 0 end in
    {| x_meta := x_meta x; x_kv := aset iid (have - n) (x_kv x) |}
  end.
Definition apply_xs (x : ximage) (ws : list xwrite) : ximage := fold_left apply_x ws x.

(* what a client sees: each repo's instances with the number of key-values they hold *)
Definition xobserve (C : pconf) (x : ximage) : res (list (N * list (N * N))) :=
  match recover C (x_meta x) with
  | Ok (m, _) =>
    Ok (map (fun ib => (fst ib,
                        map (fun ni => (fst ni, match aget (snd ni) (x_kv x) with Some c => c | None => 0 end))
                            (pr_data (snd ib)))) (m_repos m))
  | Err => Err
  | Panic => Panic
  end.

(* the writes of deleting instance [name] of repo [rid] holding [n] key-values, in batches of [b] *)
Definition delete_data_writes (m : pmgr) (rid name n b : N) : list xwrite :=
  match aget rid (m_repos m) with
  | None => []
  | Some r =>
    match aget name (pr_data r) with
    | None => []
    | Some iid =>
      let batches := if n <=? b then [XDeleteBatch iid n] else [XDeleteBatch iid b; XDeleteBatch iid (n - b)] in
      batches ++ map XMeta (snd (op_delete_data m rid name))
    end
  end.

(* ---- restart (C03): what is in memory is what was saved ---- *)
Definition synced (m : pmgr) (img : image) : Prop := m_repos m = i_repos img.

(* a merge request whose parents are all present and committed (the refused path leaves its child in
   memory without a save: C07's finding) *)
Definition merge_accepted (m : pmgr) (o : pop) : bool :=
  match o with
  | PMerge rid (p0 :: p1 :: ps) u =>
    match aget rid (m_repos m) with
    | Some r => snd (link_parents (aset (m_vid m) (mk_node u [] 0) (pr_nodes r)) (m_vid m) (p0 :: p1 :: ps))
    | None => true
    end
  | _ => true
  end.

Fixpoint run_accepted (C : pconf) (m : pmgr) (ops : list pop) : bool :=
  match ops with
  | [] => true
  | o :: r => merge_accepted m o && run_accepted C (fst (pstep C m o)) r
  end.

Fixpoint prun_img (C : pconf) (m : pmgr) (img : image) (ops : list pop) : pmgr * image :=
  match ops with
  | [] => (m, img)
  | o :: r => prun_img C (fst (pstep C m o)) (apply_ws img (snd (pstep C m o))) r
  end.

(* branch -> head version as a client resolves it ("uuid:branch").

   Repaired code (repo_patches/C03-3-fix.diff): repoT.branchHeads is a function of the DAG — the
   node with the largest version id among those carrying the branch name — and the cache is
   refreshed from it at start-up and after every DAG change, so the running server and a restarted
   one both answer [branch_head]. *)
Definition max_heads (r : prepo) : list (N * N) :=
  fold_left (fun acc vn =>
               let br := pn_branch (snd vn) in
               match aget br acc with
               | Some cur => if cur <? fst vn then aset br (fst vn) acc else acc
               | None => aset br (fst vn) acc
               end) (pr_nodes r) [].
Definition branch_head (m : pmgr) (rid br : N) : option N :=
  match aget rid (m_repos m) with Some r => aget br (max_heads r) | None => None end.

(* the code as it stood: the running server answered from the cached map maintained by newRepo and
   newVersion only ([m_heads]), start-up rebuilt it from the leaves ([leaf_heads] inside [recover]) *)
Definition live_head (m : pmgr) (rid br : N) : option N :=
  match aget rid (m_heads m) with Some h => aget br h | None => None end.

(* instance deletion with the metadata saved FIRST (repo_patches/C04-5-fix.diff): the repo without
   the instance, then the key-value batches *)
Definition delete_data_writes_fixed (m : pmgr) (rid name n b : N) : list xwrite :=
  match aget rid (m_repos m) with
  | None => []
  | Some r =>
    match aget name (pr_data r) with
    | None => []
    | Some iid =>
      let batches := if n <=? b then [XDeleteBatch iid n] else [XDeleteBatch iid b; XDeleteBatch iid (n - b)] in
      map XMeta (snd (op_delete_data m rid name)) ++ batches
    end
  end.
