(* Model.NJQuery: POST <api>/node/<version>/<data>/query of datatype/neuronjson as a REQUEST, i.e. a
   function from the whole state to the state it leaves behind and the answer — the "query" case
   of Data.ServeHTTP (neuronjson.go:2350) and Data.Query (query.go:423): read the body, parse it as
   a list of query objects or as one object, reject an empty list, answer from the db
   getMemDBbyVersion picks (queryInMemory under mdb.mu.RLock) or from the store
   (queryBackingStore).  IsMutationRequest (neuronjson.go:809) declares this request read-only:
   that claim is what Props/C16_readonly.v proves of this model and what the c16 driver checks of
   the handler (digest of everything the instance's store holds, before and after).
   Definitions only. *)
From DV Require Import Base.Prelude Model.NJ.
Local Open Scope N_scope.

(* what Data.Query makes of the request body *)
Inductive qbody :=
| QUnparsable                    (* neither a JSON list of objects nor a JSON object: HTTP 400 *)
| QParsed (ql : list query).     (* ListQueryJSON; one object = a one-item list; [] and null = no query *)

Record qreq := mkQ { q_ref : vref; q_body : qbody; q_onlyid : bool; q_fm : list bytes; q_sh : shows }.

(* the state after the request, and the answer (None: no such version, rejected before the handler) *)
Definition post_query (rx : bytes -> option (bytes -> bool)) (V : variant) (s : state) (q : qreq)
  : state * option rres :=
  match q_body q with
  | QUnparsable => (s, option_map (fun _ => XErr) (resolve s (q_ref q)))
  | QParsed [] => (s, option_map (fun _ => XErr) (resolve s (q_ref q)))
  | QParsed ql => (s, read_ref rx V s (q_ref q) (RQuery ql (q_onlyid q) (q_fm q) (q_sh q)))
  end.

(* histories in which POST query requests are interleaved with the updating requests; the server
   recovers a panicking handler (HTTP 500), so a query never ends the history *)
Inductive req := ROp (o : op) | RPostQuery (q : qreq).
Fixpoint run_reqs (rx : bytes -> option (bytes -> bool)) (V : variant) (s : state) (h : list req) : res state :=
  match h with
  | [] => Ok s
  | ROp o :: r => match step V s o with
                  | (_, Panic) => Panic
                  | (s', _) => run_reqs rx V s' r
                  end
  | RPostQuery q :: r => run_reqs rx V (fst (post_query rx V s q)) r
  end.
Definition erase_queries (h : list req) : list op :=
  flat_map (fun r => match r with ROp o => [o] | RPostQuery _ => [] end) h.
(* the answers the queries of a history got *)
Fixpoint query_answers (rx : bytes -> option (bytes -> bool)) (V : variant) (s : state) (h : list req) : list (option rres) :=
  match h with
  | [] => []
  | ROp o :: r => match step V s o with
                  | (_, Panic) => []
                  | (s', _) => query_answers rx V s' r
                  end
  | RPostQuery q :: r => snd (post_query rx V s q) :: query_answers rx V (fst (post_query rx V s q)) r
  end.
