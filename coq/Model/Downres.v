(* Model.Downres: 2x down-sampling of label data.
   datatype/common/labels/compressed.go: the vote inside downresArray / DownresLabels,
   Block.setBlank, Block.DownresSlow, Block.Downres;
   datatype/labelmap/downres.go: getHiresChanges (parent block and octant index of a changed
   block), downresOctant (start from the stored parent unless all eight octants changed);
   datatype/common/downres/downres.go: Mutation.Execute over the levels.
   Definitions only. *)
From DV Require Import Base.Prelude Base.Int Base.BitPack Model.Block Gen.Consts.
Local Open Scope N_scope.

(* ---------------- the vote ---------------- *)

(* votemap[lbl]++ for the non-zero labels, in order of first occurrence *)
Definition votemap (ls : list N) : list (N * N) := count_labels ls [].

(* `for lbl, votes := range votemap`: any iteration order; [es] is the map in that order *)
Definition pick (es : list (N * N)) : N :=
  fst (fold_left (fun (w : N * N) (e : N * N) =>
                    let '(winner, winnerVotes) := w in let '(lbl, votes) := e in
                    if winnerVotes <? votes then (lbl, votes)
                    else if (winnerVotes =? votes) && (lbl <? winner) then (lbl, votes)
                    else w) es (0, 0)).

Definition vote (ls : list N) : N := pick (votemap ls).

(* ---------------- arrays ---------------- *)

(* arrays are read through their rows (Model.Block.rows / vol_at: row z*ny+y, entry x) *)

(* the eight hi-res voxels under lo-res voxel (lx,ly,lz), iz outermost as in the Go loops *)
Definition eight (rs : list (list N)) (ny : N) (lx ly lz : N) : res (list N) :=
  mapR (fun i => opt_res (vol_at rs ((2 * lz + i / 4) * ny + (2 * ly + (i / 2) mod 2)) (2 * lx + i mod 2))) (nseq 8).

(* DownresLabels(hires, hisize): the lo-res array of half the size *)
Definition downres_labels (hires : list N) (nx ny nz : N) : res (list N) :=
  if negb (N.of_nat (length hires) =? nx * ny * nz) then Err
  else if N.odd nx || N.odd ny || N.odd nz then Err
  else
    let rs := rows nx hires in
    mapR (fun p => let lx := p mod (nx / 2) in let ly := (p / (nx / 2)) mod (ny / 2) in let lz := p / (nx / 2 * (ny / 2)) in
                   match eight rs ny lx ly lz with
                   | Ok ls => Ok (vote ls) | Err => Err | Panic => Panic end)
         (nseq (nx / 2 * (ny / 2) * (nz / 2))).

(* downresArray(hires, lores, vx, vy, vz, blockSize): the half-size image of [hires] written into
   [lores] at voxel offset (vx,vy,vz); both arrays have the block's size *)
Definition downres_into (hires lores : list N) (nx ny nz vx vy vz : N) : res (list N) :=
  let rs := rows nx hires in
  let lrs := rows nx lores in
  mapR (fun p => let x := p mod nx in let y := (p / nx) mod ny in let z := p / (nx * ny) in
                 if (vx <=? x) && (x <? vx + nx / 2) && (vy <=? y) && (y <? vy + ny / 2) && (vz <=? z) && (z <? vz + nz / 2)
                 then match eight rs ny (x - vx) (y - vy) (z - vz) with
                      | Ok ls => Ok (vote ls) | Err => Err | Panic => Panic end
                 else opt_res (vol_at lrs (z * ny + y) x))
       (nseq (nx * ny * nz)).

(* ---------------- Block.Downres ---------------- *)

(* setBlank.  [fixed] = false: the code as found — a nil octant counts as a solid label-0 block, so
   one solid-0 octant plus nil octants turns the WHOLE block into solid 0.  [fixed] = true
   (repo_patches/C14-1-fix.diff): a nil octant means "leave that part unchanged", so the shortcut
   only fires when all eight octants are given. *)
Definition solid_label (o : option block) : option N :=
  match o with
  | Some b => match b_labels b with [l] => Some l | _ => None end
  | None => None
  end.

Definition set_blank (fixed : bool) (octants : list (option block)) : option N :=
  if fixed then
    match octants with
    | o0 :: rest =>
      match solid_label o0 with
      | Some l => if forallb (fun o => match solid_label o with Some l' => l' =? l | None => false end) rest
                  then Some l else None
      | None => None
      end
    | [] => None
    end
  else
    match octants with
    | o0 :: rest =>
      let first := match o0 with
                   | None => Some 0
                   | Some b => match b_labels b with [l] => Some l | _ => None end
                   end in
      match first with
      | Some lbl =>
        if forallb (fun o => match o with
                             | None => lbl =? 0
                             | Some b => match b_labels b with [l'] => lbl =? l' | _ => false end
                             end) rest
        then Some lbl else None
      | None => None
      end
    | [] => None
    end.

(* DownresSlow: start from zeros when all eight octants are given, else from the block's own
   voxels; every given octant is down-sampled into its eighth *)
Fixpoint downres_octants (octs : list (option block)) (i : N) (acc : list N) (gx gy gz : N) : res (list N) :=
  match octs with
  | [] => Ok acc
  | o :: rest =>
    match o with
    | None => downres_octants rest (i + 1) acc gx gy gz
    | Some ob =>
      match decode ob with
      | Ok ha =>
        if negb ((b_gx ob =? gx) && (b_gy ob =? gy) && (b_gz ob =? gz)) then Err   (* octant block size differs *)
        else
          let nx := 8 * gx in let ny := 8 * gy in let nz := 8 * gz in
          let oz := i / 4 in let oy := (i - oz * 4) / 2 in let ox := i mod 2 in
          match downres_into ha acc nx ny nz (ox * nx / 2) (oy * ny / 2) (oz * nz / 2) with
          | Ok acc' => downres_octants rest (i + 1) acc' gx gy gz
          | Err => Err | Panic => Panic
          end
      | Err => Err | Panic => Panic
      end
    end
  end.

Definition downres_slow (tbl : list N -> list N) (b : block) (octants : list (option block)) : res block :=
  let nvox := 8 * b_gx b * (8 * b_gy b) * (8 * b_gz b) in
  let filled := forallb (fun o => match o with Some _ => true | None => false end) octants in
  match (if filled then Ok (repeat 0 (N.to_nat nvox)) else decode b) with
  | Ok start =>
    match downres_octants octants 0 start (b_gx b) (b_gy b) (b_gz b) with
    | Ok a => encode (tbl a) a (b_gx b) (b_gy b) (b_gz b)
    | Err => Err | Panic => Panic
    end
  | Err => Err | Panic => Panic
  end.

(* Block.Downres(octants), eight octants in index order ((z%2)<<2 | (y%2)<<1 | x%2) *)
Definition downres (fixed : bool) (tbl : list N -> list N) (b : block) (octants : list (option block)) : res block :=
  match set_blank fixed octants with
  | Some l => Ok (solid_block l (b_gx b) (b_gy b) (b_gz b))
  | None => downres_slow tbl b octants
  end.

(* ---------------- getHiresChanges: parent block and octant of a changed block ---------------- *)

(* hresCoord >> 1 (arithmetic shift: floor) and ((z % 2) << 2) + ((y % 2) << 1) + (x % 2) with Go's
   truncating %.  [fixed] = false: as found — for a negative odd coordinate c % 2 = -1 and the
   octant index is negative (index out of range on the [8] array).  [fixed] = true: c & 1. *)
Definition parent_coord (c : Z) : Z := Z.shiftr c 1.
Definition bit_of (fixed : bool) (c : Z) : Z := if fixed then Z.land c 1 else Z.rem c 2.
Definition octant_index (fixed : bool) (x y z : Z) : Z :=
  (Z.shiftl (bit_of fixed z) 2 + Z.shiftl (bit_of fixed y) 1 + bit_of fixed x)%Z.
Definition hires_change (fixed : bool) (x y z : Z) : res (Z * Z * Z * N) :=
  let i := octant_index fixed x y z in
  if (i <? 0)%Z || (8 <=? i)%Z then Panic            (* oct[octidx] = block *)
  else Ok (parent_coord x, parent_coord y, parent_coord z, Z.to_N i).
