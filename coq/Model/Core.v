(* Model.Core: the versioned key-value core as a state machine over API-level operations:
   a version DAG grown by newversion/branch/merge off committed nodes, a store of per-version
   entries (value or tombstone) per key, and reads resolved by Model.Resolve.read.
   DAG requests carry the server's accept/refuse answer (their validation is C07's model,
   Model.Repo); data writes are predicted (refused exactly on committed versions). *)
From DV Require Import Base.Prelude Model.Dag Model.Resolve.
Local Open Scope N_scope.

Record core := {
  next : V;                          (* id the next created version gets (creation ordinal) *)
  dag : dagl;                        (* node -> ordered parents *)
  nodes : list V;
  locked : list V;
  store : list ((N * V) * entry);    (* most recent first: (key, version) -> entry *)
}.

Definition core_init : core :=
  {| next := 2; dag := []; nodes := [1]; locked := []; store := [] |}.

Fixpoint lookup_kv (k : N) (v : V) (s : list ((N * V) * entry)) : option entry :=
  match s with
  | [] => None
  | ((k', v'), e) :: r => if (k =? k') && (v =? v') then Some e else lookup_kv k v r
  end.

Definition ent_of (c : core) (k : N) : V -> option entry := fun v => lookup_kv k v (store c).

Definition fuel_of (c : core) : nat := S (N.to_nat (next c)).

Definition get (c : core) (k : N) (v : V) : rres :=
  read (parents_of (dag c)) (ent_of c k) (fuel_of c) (fuel_of c) v.

Inductive op :=
| OPut (k : N) (v : V) (x : N)
| ODel (k : N) (v : V)
| OCommit (v : V) (accepted : bool)
| OChild (parents : list V) (accepted : bool)   (* newversion / branch / merge *)
| OGet (k : N) (v : V).

Inductive out :=
| Accepted
| Refused
| Read (r : rres).

Definition writable (c : core) (v : V) : bool := mem v (nodes c) && negb (mem v (locked c)).

Definition step (c : core) (o : op) : core * out :=
  match o with
  | OPut k v x =>
    if writable c v
    then ({| next := next c; dag := dag c; nodes := nodes c; locked := locked c;
             store := ((k, v), Val x) :: store c |}, Accepted)
    else (c, Refused)
  | ODel k v =>
    if writable c v
    then ({| next := next c; dag := dag c; nodes := nodes c; locked := locked c;
             store := ((k, v), Tomb) :: store c |}, Accepted)
    else (c, Refused)
  | OCommit v accepted =>
    if accepted && mem v (nodes c)
    then ({| next := next c; dag := dag c; nodes := nodes c; locked := v :: locked c;
             store := store c |}, Accepted)
    else (c, Refused)
  | OChild ps accepted =>
    (* a child hangs only off committed parents: a request accepted otherwise is refused here,
       which the correspondence check would flag *)
    if accepted && negb (match ps with [] => true | _ => false end)
       && forallb (fun p => mem p (locked c)) ps
    then ({| next := next c + 1; dag := (next c, ps) :: dag c; nodes := next c :: nodes c;
             locked := locked c; store := store c |}, Accepted)
    else (c, Refused)
  | OGet k v => (c, Read (get c k v))
  end.

Definition run (ops : list op) (c : core) : core := fold_left (fun c o => fst (step c o)) ops c.

Fixpoint trace (ops : list op) (c : core) : list out :=
  match ops with
  | [] => []
  | o :: r => let '(c', x) := step c o in x :: trace r c'
  end.
