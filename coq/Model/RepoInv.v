(* Model.RepoInv: the well-formedness invariant of the repo manager state (definitions only).
   Stated once here because C02, C03, C04 and C12 assume or re-establish it. *)
From DV Require Import Base.Prelude Gen.RepoFacts Model.Repo.
From Coq Require Import String Ascii.
From stdpp Require Import gmap strings.
Local Open Scope string_scope.

(* a node of r that no child continues on its own branch *)
Definition branch_leaf (r : repo) (n : node) : Prop :=
  forall c cn, c ∈ n_children n -> r_nodes r !! c = Some cn -> n_branch cn <> n_branch n.

(* the newest node of its branch: no node of the repo with the same branch name has a larger id *)
Definition branch_newest (r : repo) (v : N) (n : node) : Prop :=
  forall w m, r_nodes r !! w = Some m -> n_branch m = n_branch n -> (w <= v)%N.

(* one repo's DAG, on its own *)
Record repo_wf (r : repo) : Prop := {
  (* the root node exists, carries the repo's root UUID and has no parent *)
  wf_root : exists n, r_nodes r !! r_rootv r = Some n /\ n_uuid n = r_root r /\ n_parents n = [];
  (* it is the only node without parents: single root *)
  wf_single_root : forall v n, r_nodes r !! v = Some n -> n_parents n = [] -> v = r_rootv r;
  (* a parent is a node of the same repo with a smaller version id (hence no cycle), it is
     committed, and it lists the child *)
  wf_parents : forall v n p, r_nodes r !! v = Some n -> p ∈ n_parents n ->
      (p < v)%N /\ exists pn, r_nodes r !! p = Some pn /\ n_locked pn = true /\ v ∈ n_children pn;
  (* children mirror parents *)
  wf_children : forall v n c, r_nodes r !! v = Some n -> c ∈ n_children n ->
      exists cn, r_nodes r !! c = Some cn /\ v ∈ n_parents cn;
  (* the DAG is a simple graph *)
  wf_nodup : forall v n, r_nodes r !! v = Some n -> NoDup (n_parents n) /\ NoDup (n_children n);
  (* a node on a named branch has exactly one parent (merge nodes are on no named branch) *)
  wf_named_one_parent : forall v n, r_nodes r !! v = Some n -> n_branch n <> "" ->
      exists p, n_parents n = [p];
  (* a node has at most one non-merge child per branch name: branches are linear *)
  wf_linear : forall v n c1 c2 n1 n2, r_nodes r !! v = Some n ->
      c1 ∈ n_children n -> c2 ∈ n_children n ->
      r_nodes r !! c1 = Some n1 -> r_nodes r !! c2 = Some n2 ->
      n_parents n1 = [v] -> n_parents n2 = [v] -> n_branch n1 = n_branch n2 -> c1 = c2;
  (* the leaf of a named branch is its newest node: the branch is one chain, and the head the
     server computes (largest version id on the branch) is the node no child continues *)
  wf_leaf_newest : forall v n, r_nodes r !! v = Some n -> n_branch n <> "" -> branch_leaf r n ->
      branch_newest r v n;
  (* "master" is only ever the label of the empty branch name *)
  wf_no_master : forall v n, r_nodes r !! v = Some n -> n_branch n <> s_master_label;
  (* root UUIDs are well-formed (they prefix the keys of the branch head cache) *)
  wf_root_len : String.length (r_root r) = 32%nat
}.


Record RepoInv (s : state) : Prop := {
  (* every live repo (entry of repoToUUID) is a well-formed repo object with that root *)
  inv_live : forall i R, st_roots s !! i = Some R ->
      exists r, st_repos s !! i = Some r /\ r_root r = R /\ repo_wf r;
  (* uuidToVersion and versionToUUID are mutually inverse *)
  inv_bij : forall u v, st_u2v s !! u = Some v <-> st_v2u s !! v = Some u;
  (* ... and total on the nodes of live repos; m.repos sends a node's UUID to its repo *)
  inv_nodes : forall i R r v n, st_roots s !! i = Some R -> st_repos s !! i = Some r ->
      r_nodes r !! v = Some n -> st_v2u s !! v = Some (n_uuid n) /\ st_repo_of s !! n_uuid n = Some i;
  (* m.repos only knows UUIDs of nodes of live repos *)
  inv_repo_of : forall u i, st_repo_of s !! u = Some i ->
      exists R r v n, st_roots s !! i = Some R /\ st_repos s !! i = Some r /\
                      st_u2v s !! u = Some v /\ r_nodes r !! v = Some n;
  (* every identifier in the maps names a node *)
  inv_mapped : forall v u, st_v2u s !! v = Some u -> is_Some (st_repo_of s !! u);
  (* identifiers are below the counters *)
  inv_next_v : forall v u, st_v2u s !! v = Some u -> (v < st_next_v s)%N;
  inv_next_r : forall i r, st_repos s !! i = Some r -> (i < st_next_r s)%N;
  (* NilUUID names nothing *)
  inv_nil : st_u2v s !! "" = None;
  (* the head cache points at the newest node of every branch, the default branch ("", cached as
     "master") included; for a named branch that is its one leaf (wf_leaf_newest) *)
  inv_head_newest : forall i R r v n, st_roots s !! i = Some R -> st_repos s !! i = Some r ->
      r_nodes r !! v = Some n -> branch_newest r v n ->
      st_heads s !! head_key (r_root r) (n_branch n) = Some (n_uuid n)
}.

(* the oracle for generated UUIDs: a well-formed UUID that is not in use *)
Definition fresh_ok (s : state) (f : string) : Prop :=
  valid_uuid f = true /\ st_u2v s !! f = None.

(* the UUIDs a request lets the server generate, in the order they are consumed *)
Definition fresh_of (r : req) : list string :=
  match r with
  | RNewRepo _ _ f | RNewVersion _ _ f | RBranch _ _ _ f | RMerge _ _ _ f => [f]
  | RResolve _ data _ f => (flat_map (fun d => List.map snd (snd d)) data ++ [f])%list
  | _ => []
  end.

Definition oracle_ok (s : state) (r : req) : Prop :=
  NoDup (fresh_of r) /\ Forall (fresh_ok s) (fresh_of r).

(* what an error answer must leave untouched: everything but the instance id counter
   (newInstanceID runs before newData looks at the name) *)
Definition frame (s : state) :=
  (st_repos s, st_repo_of s, st_roots s, st_u2v s, st_v2u s, st_heads s, st_next_v s, st_next_r s).

(* every request of the sequence meets a correct UUID oracle in the state it arrives at *)
Fixpoint oracles_ok (fx : fixes) (s : state) (rs : list req) : Prop :=
  match rs with
  | [] => True
  | r :: rest => oracle_ok s r /\ oracles_ok fx (fst (step fx s r)) rest
  end.
