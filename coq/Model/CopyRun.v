(* Model.CopyRun: case type and checkers for Run/cases_C19.v (no proofs). *)
From DV Require Import Base.Prelude Model.Dag Model.Resolve Model.Core Model.Copy Model.ResolveRun.
Local Open Scope N_scope.

(* the keys of the source instance are k < 1000; the copy's are k + 1000 *)
Definition rho_std (k : N) : option N := if k <? 1000 then Some (k + 1000) else None.

Inductive c19case :=
(* keyvalue history, then a raw (flat = None) or flattened copy; reads of source and copy *)
| CCopy (ops : list op) (flat : option V) (reads : list (N * V * obs * obs))
(* other data types: responses of source and copy at each version, already compared byte-wise
   by the driver after canonicalisation; eq = they were equal *)
| COther (typ : N) (flat : bool) (results : list (V * bool))
(* CopyInstance returned an error or panicked *)
| CCopyFail (typ : N) (ops : list op) (flat : option V).

Definition state_after (ops : list op) : core := run ops core_init.

Definition copy_of (c : core) (flat : option V) : core :=
  match flat with
  | None => copy_raw rho_std c
  | Some v => copy_flat rho_std c v
  end.

Definition model_ok (x : c19case) : bool :=
  match x with
  | CCopy ops flat reads =>
    let c := state_after ops in
    let c' := copy_of c flat in
    forallb (fun r => match r with
                      | (k, v, osrc, odst) =>
                        obs_matches_http osrc (get c k v) && obs_matches_http odst (get c' (k + 1000) v)
                        && obs_matches_http osrc (get c' k v)
                      end) reads
  | COther _ _ _ => true
  | CCopyFail _ _ _ => true
  end.

Definition obs_same_value (a b : obs) : bool :=
  match a, b with
  | ObsVal x _, ObsVal y _ => x =? y
  | ObsNone, ObsNone => true
  | ObsErr, ObsErr => true
  | _, _ => false
  end.

(* property-level oracle on the implementation's own answers:
   raw copy: every read of the copy equals the same read of the source;
   flattened at V: the copy at V equals the source at V (conflicted reads excepted) *)
Definition spec_class (x : c19case) : nat :=
  match x with
  | CCopy ops flat reads =>
    if forallb (fun r => match r with
                         | (k, v, osrc, odst) =>
                           match flat with
                           | None => obs_same_value osrc odst
                           | Some fv => if v =? fv
                                        then match osrc with ObsErr => true | _ => obs_same_value osrc odst end
                                        else true
                           end
                         end) reads
    then 0%nat else 1%nat
  | COther _ flat results =>
    if forallb (fun r => snd r) results then 0%nat else 2%nat
  | CCopyFail typ ops flat =>
    (* the only legitimate failure: a flattened keyvalue copy at a version where some key is in
       unresolved merge conflict (the range read it is built on fails) *)
    match flat with
    | Some v =>
      if (typ =? 0) && existsb (fun k => match get (state_after ops) k v with RConflict => true | _ => false end)
                               [0;1;2;3;4;5;6;7;8;9]
      then 0%nat else 4%nat
    | None => 4%nat
    end
  end.

Fixpoint classify_from (i : nat) (l : list c19case) : list (nat * nat) :=
  match l with
  | [] => []
  | c :: r => let k := spec_class c in
              if Nat.eqb k 0 then classify_from (S i) r else (i, k) :: classify_from (S i) r
  end.
Definition c19_spec_fail (l : list c19case) : list (nat * nat) := classify_from 0 l.
Definition c19_model_mismatch (l : list c19case) : list nat := find_idx (fun c => negb (model_ok c)) l.
