(* Model.CopyRun: case type and checkers for Run/cases_C19.v (no proofs). *)
From DV Require Import Base.Prelude Model.Dag Model.Resolve Model.Core Model.Copy Model.ResolveRun Model.Transfer.
Local Open Scope N_scope.

(* the keys of the source instance are k < 1000; the copy's are k + 1000 *)
Definition rho_std (k : N) : option N := if k <? 1000 then Some (k + 1000) else None.

Inductive c19case :=
(* keyvalue history, then a raw (flat = None) or flattened copy; reads of source and copy *)
| CCopy (ops : list op) (flat : option V) (reads : list (N * V * obs * obs))
(* other data types: responses of source and copy at each version, already compared byte-wise
   by the driver after canonicalisation; eq = they were equal *)
| COther (typ : N) (flat : bool) (results : list (V * bool))
(* CopyInstance returned an error or panicked *)
| CCopyFail (typ : N) (ops : list op) (flat : option V)
(* version-limited transfer (MigrateInstance with a uuid list): ids of the lineage of the last transmitted
   version, transmitted ids, and per datum: the entries stored in the source (all versions, key order), the
   entries found in the destination afterwards, and what source and destination answer at each transmitted
   version; src_changed = some read of the source differed before / after the transfer;
   mode 0 = uuid list, 1 = transmit=all (every entry copied unchanged), 2 = transmit=flatten at the one version in ts *)
| CTransfer (mode : nat) (src_changed : bool) (path ts : list nat)
            (data : list (entries * entries * list (nat * option bytes * option bytes)))
| CTransferFail (typ : N)
(* TransferData of the whole store onto a fresh one (every version, or only the listed ones): the driver compares
   the raw data keys; expected = data keys of the source that qualify, missing / extra / differ = qualifying keys
   absent from the destination, destination keys that do not qualify, keys present with other bytes *)
| CTransferData (filtered : bool) (expected missing extra differ : N) (src_changed : bool).

Definition tent_eqb (a b : tent) : bool :=
  match a, b with
  | TVal x, TVal y => bytes_eqb x y
  | TTomb, TTomb => true
  | _, _ => false
  end.
Fixpoint entries_eqb (a b : entries) : bool :=
  match a, b with
  | [], [] => true
  | (v, e) :: r, (w, f) :: s => Nat.eqb v w && tent_eqb e f && entries_eqb r s
  | _, _ => false
  end.
Definition obytes_eqb (a b : option bytes) : bool :=
  match a, b with
  | Some x, Some y => bytes_eqb x y
  | None, None => true
  | _, _ => false
  end.
Definition onp_of (path : list nat) (v : nat) : bool := existsb (Nat.eqb v) path.

Definition state_after (ops : list op) : core := run ops core_init.

Definition copy_of (c : core) (flat : option V) : core :=
  match flat with
  | None => copy_raw rho_std c
  | Some v => copy_flat rho_std c v
  end.

Definition model_ok (x : c19case) : bool :=
  match x with
  | CCopy ops flat reads =>
    let c := state_after ops in
    let c' := copy_of c flat in
    forallb (fun r => match r with
                      | (k, v, osrc, odst) =>
                        obs_matches_http osrc (get c k v) && obs_matches_http odst (get c' (k + 1000) v)
                        && obs_matches_http osrc (get c' k v)
                      end) reads
  | COther _ _ _ => true
  | CCopyFail _ _ _ => true
  | CTransfer mode src_changed path ts data =>
    negb src_changed && ascending 0 ts &&
    forallb (fun d => match d with
                      | (es, ed, reads) =>
                        asc_es 0 es &&
                        entries_eqb ed (match mode with
                                        | O => transfer same_entry (onp_of path) es ts
                                        | S O => es
                                        | _ => match ts with [V] => flatten_at (onp_of path) es V | _ => [] end
                                        end) &&
                        forallb (fun r => match r with
                                          | (t, so, dd) => obytes_eqb so (src_read (onp_of path) es t)
                                                           && obytes_eqb dd (src_read (onp_of path) ed t)
                                          end) reads
                      end) data
  | CTransferFail _ => false
  | CTransferData _ _ missing extra differ chg => (missing =? 0) && (extra =? 0) && (differ =? 0) && negb chg
  end.

Definition obs_same_value (a b : obs) : bool :=
  match a, b with
  | ObsVal x _, ObsVal y _ => x =? y
  | ObsNone, ObsNone => true
  | ObsErr, ObsErr => true
  | _, _ => false
  end.

(* property-level oracle on the implementation's own answers:
   raw copy: every read of the copy equals the same read of the source;
   flattened at V: the copy at V equals the source at V (conflicted reads excepted) *)
Definition spec_class (x : c19case) : nat :=
  match x with
  | CCopy ops flat reads =>
    if forallb (fun r => match r with
                         | (k, v, osrc, odst) =>
                           match flat with
                           | None => obs_same_value osrc odst
                           | Some fv => if v =? fv
                                        then match osrc with ObsErr => true | _ => obs_same_value osrc odst end
                                        else true
                           end
                         end) reads
    then 0%nat else 1%nat
  | COther _ flat results =>
    if forallb (fun r => snd r) results then 0%nat else 2%nat
  | CCopyFail typ ops flat =>
    (* the only legitimate failure: a flattened keyvalue copy at a version where some key is in
       unresolved merge conflict (the range read it is built on fails) *)
    match flat with
    | Some v =>
      if (typ =? 0) && existsb (fun k => match get (state_after ops) k v with RConflict => true | _ => false end)
                               [0;1;2;3;4;5;6;7;8;9]
      then 0%nat else 4%nat
    | None => 4%nat
    end
  | CTransfer mode src_changed path ts data =>
    (* at every transmitted version the destination answers what the source answers; the source is unchanged *)
    if src_changed then 6%nat
    else if forallb (fun d => forallb (fun r => match r with (t, so, dd) => obytes_eqb so dd end) (snd d)) data
    then 0%nat else 5%nat
  | CTransferFail _ => 4%nat
  | CTransferData _ _ missing extra differ chg =>
    if chg then 6%nat else if (missing =? 0) && (extra =? 0) && (differ =? 0) then 0%nat else 5%nat
  end.

Fixpoint classify_from (i : nat) (l : list c19case) : list (nat * nat) :=
  match l with
  | [] => []
  | c :: r => let k := spec_class c in
              if Nat.eqb k 0 then classify_from (S i) r else (i, k) :: classify_from (S i) r
  end.
Definition c19_spec_fail (l : list c19case) : list (nat * nat) := classify_from 0 l.
Definition c19_model_mismatch (l : list c19case) : list nat := find_idx (fun c => negb (model_ok c)) l.
