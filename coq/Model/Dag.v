(* Model.Dag: version DAG as ordered parent lists, entries of one datum per version. *)
From DV Require Import Base.Prelude.
Local Open Scope N_scope.

Definition V := N.

Fixpoint assoc {A} (k : N) (l : list (N * A)) : option A :=
  match l with
  | [] => None
  | (k', a) :: r => if k =? k' then Some a else assoc k r
  end.

(* node -> ordered parents; a node that is not listed has no parents *)
Definition dagl := list (V * list V).
Definition parents_of (g : dagl) (v : V) : list V :=
  match assoc v g with Some l => l | None => [] end.

(* what the store holds for one datum at one version *)
Inductive entry := Val (x : N) | Tomb.
Definition is_val (e : option entry) : bool :=
  match e with Some (Val _) => true | _ => false end.

(* The store returns the per-version entries of a datum as a list of keys in some order; the
   Go code files them into a map keyed by version, so a later duplicate overwrites. *)
Definition kvv_of (keys : list (V * entry)) (v : V) : option entry := assoc v (rev keys).

Definition mem (x : N) (l : list N) : bool := existsb (N.eqb x) l.
