(* Model.IZYX: dvid.IZYXSlice (dvid/volumes.go:998-1346), a slice of 12-byte block keys.
     Delete :1050   Merge :1077   MergeCopy :1104   Split :1170   GetBounds :1239
     FitToBounds :1281   Downres :1320
   A key is modelled by the block coordinate it encodes (the codec is to_zyx / from_zyx, proved a
   bijection on int32 points whose byte order is zyx_cmp: C18_zyx_roundtrip, C18_zyx_order), so Go's
   string `<` / `==` on keys are [zlt] / [pt_eqb] here.
   Definitions only. *)
From DV Require Import Base.Prelude Base.Int Base.WrapZ Model.Geometry Model.RLE.
Local Open Scope Z_scope.

Definition zlt (p q : pt) : bool := match zyx_cmp p q with Lt => true | _ => false end.

(* sorted, duplicate-free *)
Fixpoint ssorted (l : list pt) : bool :=
  match l with
  | a :: ((b :: _) as t) => zlt a b && ssorted t
  | _ => true
  end.

Definition last_pt (l : list pt) (d : pt) : pt := last l d.
Definition head_pt (l : list pt) (d : pt) : pt := hd d l.

(* ---- Delete: the loop over (pos1, pos2); removing the element at pos1 in place keeps pos1 ---- *)
Fixpoint delete_loop (a : list pt) : list pt -> list pt :=
  fix inner (b : list pt) : list pt :=
    match a, b with
    | [], _ => []
    | _, [] => a
    | x :: a', y :: b' =>
      if pt_eqb x y then delete_loop a' b'
      else if zlt y x then inner b'
      else x :: delete_loop a' b
    end.

Definition idelete (a b : list pt) : list pt :=
  match a, b with
  | [], _ => a
  | _, [] => a
  | x0 :: _, y0 :: _ =>
    if zlt (last b y0) x0 || zlt (last a x0) y0 then a else delete_loop a b
  end.

(* ---- MergeCopy / Merge ---- *)
Fixpoint merge_loop_z (a : list pt) : list pt -> list pt :=
  fix inner (b : list pt) : list pt :=
    match a, b with
    | [], _ => b
    | _, [] => a
    | x :: a', y :: b' =>
      match zyx_cmp x y with
      | Lt => x :: merge_loop_z a' b
      | Gt => y :: inner b'
      | Eq => x :: merge_loop_z a' b'
      end
    end.
Definition merge_copy (a b : list pt) : list pt := merge_loop_z a b.

Definition imerge (a b : list pt) : list pt :=
  match a, b with
  | _, [] => a
  | [], _ => b
  | x0 :: _, y0 :: _ =>
    if zlt (last a x0) y0 then a ++ b
    else if zlt (last b y0) x0 then b ++ a
    else merge_copy a b
  end.

(* ---- Split: cursor (rzyx, the part of rm after rmpos) ---- *)
Fixpoint adv (rz : pt) (rest : list pt) (x : pt) : pt * list pt :=
  match rest with
  | [] => (rz, [])                        (* rmpos ran past the end: rzyx keeps its value *)
  | r :: t => if zlt rz x then adv r t x else (rz, rest)
  end.
Fixpoint split_loop_z (a : list pt) (rz : pt) (rest : list pt) : list pt :=
  match a with
  | [] => []
  | x :: a' =>
    let st := adv rz rest x in
    if pt_eqb x (fst st) then split_loop_z a' (fst st) (snd st)
    else x :: split_loop_z a' (fst st) (snd st)
  end.
Definition isplit (a rm : list pt) : list pt :=
  match a, rm with
  | [], _ => []
  | _, [] => a
  | _, r0 :: rm' => split_loop_z a r0 rm'
  end.

(* ---- GetBounds: (min point, max point); the maximum starts at -math.MaxInt32 + 1 ---- *)
Definition bounds_step (acc : pt * pt) (p : pt) : pt * pt :=
  let mn := fst acc in let mx := snd acc in
  ((if px p <? px mn then px p else px mn, if py p <? py mn then py p else py mn,
    if pz p <? pz mn then pz p else pz mn),
   (if px mx <? px p then px p else px mx, if py mx <? py p then py p else py mx,
    if pz mx <? pz p then pz p else pz mx)).
Definition get_bounds_from (init_max : Z) (l : list pt) : pt * pt :=
  match l with
  | [] => ((0, 0, 0), (0, 0, 0))
  | _ => fold_left bounds_step l
           ((2147483647, 2147483647, 2147483647), (init_max, init_max, init_max))
  end.
Definition get_bounds (l : list pt) : pt * pt := get_bounds_from (-2147483646) l.
(* with repo_patches/C18-4-fix.diff: math.MinInt32 *)
Definition get_bounds_fixed (l : list pt) : pt * pt := get_bounds_from (-2147483648) l.

(* ---- FitToBounds (block bounds): `break` once z is past maxz, `continue` otherwise ---- *)
Fixpoint ifit_loop (l : list pt) (b : obounds) : list pt :=
  match l with
  | [] => []
  | p :: t =>
    if ltb_opt (pz p) (minz b) then ifit_loop t b
    else if gtb_opt (pz p) (maxz b) then []
    else if ltb_opt (py p) (miny b) || gtb_opt (py p) (maxy b)
            || ltb_opt (px p) (minx b) || gtb_opt (px p) (maxx b) then ifit_loop t b
    else p :: ifit_loop t b
  end.
Definition ifit (l : list pt) (b : option obounds) : list pt :=
  match b with None => l | Some ob => ifit_loop l ob end.

(* ---- Downres: int32 >> uint8 is an arithmetic shift (floor; 0 or -1 from 31 bits on) ---- *)
Definition parent (scale : Z) (p : pt) : pt :=
  (Z.shiftr (px p) scale, Z.shiftr (py p) scale, Z.shiftr (pz p) scale).
(* the map of keys, then sort.Sort: a sorted duplicate-free list *)
Fixpoint pt_insert (p : pt) (l : list pt) : list pt :=
  match l with
  | [] => [p]
  | h :: t => match zyx_cmp p h with
              | Lt => p :: l
              | Eq => l
              | Gt => h :: pt_insert p t
              end
  end.
Definition sort_dedup (l : list pt) : list pt := fold_right pt_insert [] l.
Definition downres (l : list pt) (scale : Z) : list pt :=
  if scale =? 0 then l else sort_dedup (map (parent scale) l).
