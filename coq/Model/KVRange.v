(* Model.KVRange: range queries of storage/badger/badger.go over the sorted store of Model.KV —
   versionedRange / sendKV / unversionedRange and their consumers GetRange, KeysInRange,
   ProcessRange (same stream as GetRange), DeleteRange — and keyvalue's range endpoints.

   The version resolver is a parameter: [best ks] is what VersionedCtx.VersionedKeyValue /
   GetBestKeyVersion choose among the stored keys [ks] of one TKey for the context's version
   (Ok None: nothing visible; Err: unresolved conflict, reported by VersionedKeyValue and
   swallowed by GetBestKeyVersion).  Definitions only. *)
From DV Require Import Base.Prelude Base.Int Base.Lex Base.KeyShape Gen.Consts Gen.KeyClasses Model.Keys Model.KV.
Local Open Scope N_scope.

Section Range.
Variable best : list bytes -> res (option bytes).
Variable cx : vctx.
Let i := cx_instance cx.

Fixpoint assoc (k : bytes) (l : list kv) : option bytes :=
  match l with
  | [] => None
  | (k', v) :: r => if bytes_eqb k k' then Some v else assoc k r
  end.

(* VersionedCtx.VersionedKeyValue(values): the chosen key with the value it came with *)
Definition versioned_key_value (values : list kv) : res (option kv) :=
  match best (map fst values) with
  | Ok None => Ok None
  | Ok (Some k) => match assoc k values with Some v => Ok (Some (k, v)) | None => Err end
  | Err => Err
  | Panic => Panic
  end.

(* sendKV: what goes down the channel for one batch of versions *)
Definition send_kv (values : list kv) : list (res kv) :=
  match values with
  | [] => []
  | _ =>
    match versioned_key_value values with
    | Ok None => []
    | Ok (Some e) => [Ok e]
    | Err => [Err]
    | Panic => [Panic]
    end
  end.

(* the loop of versionedRange over the items from Seek(minKey) on; state: maxVersionKey, values.
   Result: the messages sent before the final {nil, err}. *)
Fixpoint vrange_loop (max_key : bytes) (items : store) (max_vk : bytes) (values : list kv) : list (res kv) :=
  match items with
  | [] => send_kv values
  | (k, v) :: rest =>
    let passed := match lex_compare k max_vk with Gt => true | _ => false end in
    let new_vk :=
      if passed && is_data_key k then
        match tkey_from_key (Some k) with
        | Ok tk => Ok (max_version_key i tk)
        | _ => Err                                   (* return err: ends the scan *)
        end
      else Ok max_vk in
    match new_vk with
    | Ok max_vk' =>
      let flushed := if passed then send_kv values else [] in
      let values' := if passed then [] else values in
      match lex_compare k max_key with
      | Gt => flushed ++ send_kv values'
      | _ => flushed ++ vrange_loop max_key rest max_vk' (values' ++ [(k, v)])
      end
    | _ => [Err]
    end
  end.

(* keysOnly: values are not loaded *)
Definition strip (keys_only : bool) (s : store) : store :=
  if keys_only then map (fun e => (fst e, [])) s else s.

Definition versioned_range (lo hi : bytes) (keys_only : bool) (s : store) : list (res kv) :=
  vrange_loop (max_version_key i hi) (seek (min_version_key i lo) (strip keys_only s)) (max_version_key i lo) [].

(* unversionedRange: everything between ConstructKey(beg) and ConstructKey(end) *)
Definition unversioned_range (lo hi : bytes) (keys_only : bool) (s : store) : list (res kv) :=
  map (@Ok kv) (scan (construct_data_key i (cx_version cx) (cx_client cx) lo)
                     (construct_data_key i (cx_version cx) (cx_client cx) hi) (strip keys_only s)).

(* consumers: read messages until the first error *)
Fixpoint consume (msgs : list (res kv)) : res (list kv) :=
  match msgs with
  | [] => Ok []
  | Ok e :: r => res_bind (consume r) (fun l => Ok (e :: l))
  | Err :: _ => Err
  | Panic :: _ => Panic
  end.

(* TKeyFromKey on every received key *)
Fixpoint to_tkvs (l : list kv) : res (list kv) :=
  match l with
  | [] => Ok []
  | (k, v) :: r =>
    res_bind (tkey_from_key (Some k)) (fun tk => res_bind (to_tkvs r) (fun l' => Ok ((tk, v) :: l')))
  end.

(* GetRange (and the chunks ProcessRange hands to its callback) *)
Definition get_range (lo hi : bytes) (s : store) : res (list kv) :=
  res_bind (consume (versioned_range lo hi false s)) to_tkvs.
(* KeysInRange / SendKeysInRange *)
Definition keys_in_range (lo hi : bytes) (s : store) : res (list bytes) :=
  res_bind (consume (versioned_range lo hi true s)) (fun l => res_bind (to_tkvs l) (fun l' => Ok (map fst l'))).

(* DeleteRange: "if result.KeyValue == nil { break }" comes before the error test, so an error
   message ends the loop like the end of the range does; what was queued is committed and nil returned *)
Fixpoint until_stop (msgs : list (res kv)) : list kv :=
  match msgs with
  | Ok e :: r => e :: until_stop r
  | _ => []
  end.
Definition delete_range (lo hi : bytes) (s : store) : res store :=
  res_bind (to_tkvs (until_stop (versioned_range lo hi true s))) (fun l =>
    Ok (fold_left (fun acc e => delete cx (fst e) acc) l s)).

(* BadgerDB.Get with a VersionedCtx.  GetBestKeyVersion drops FindMatch's error when no key is
   returned, so a conflict reads as "not found".  With repo_patches/C05-1-fix a stored empty
   value is returned as a non-nil empty slice: nil means "not found" only. *)
Definition point_key (tk : bytes) (s : store) : option bytes :=
  match best (get_key_versions_exact i tk s) with
  | Ok (Some k) => Some k
  | _ => None
  end.
Definition point_get (tk : bytes) (s : store) : option bytes :=
  match point_key tk s with
  | Some k => kv_get k s
  | None => None
  end.
(* the code before C05-1-fix: badger's ValueCopy(nil) of an empty value is nil, which every
   caller reads as "not found" (kept for the refutation) *)
Definition point_get_nil (tk : bytes) (s : store) : option bytes :=
  match point_key tk s with
  | Some k => match kv_get k s with Some [] => None | o => o end
  | None => None
  end.
(* BadgerDB.Exists with a VersionedCtx *)
Definition point_exists (tk : bytes) (s : store) : bool :=
  match point_key tk s with Some _ => true | None => false end.

End Range.

(* ---- keyvalue's range endpoints (datatype/keyvalue/keyvalue.go) ---- *)
Section KeyValue.
Variable best : list bytes -> res (option bytes).
Variable cx : vctx.

Fixpoint decode_all (l : list bytes) : res (list bytes) :=
  match l with
  | [] => Ok []
  | tk :: r => res_bind (decode_term_tkey kc_keyvalue_NewTKey tk) (fun s => res_bind (decode_all r) (fun l' => Ok (s :: l')))
  end.

(* keyvalue.NewTKey with repo_patches/C06-4-fix *)
Definition kv_new_tkey (s : bytes) : res bytes :=
  if existsb (N.eqb 0) s then Err else Ok (kv_tkey s).

(* GetKeys: KeysInRange(MinTKey(keyStandard), MaxTKey(keyStandard)) *)
Definition kv_keys (s : store) : res (list bytes) :=
  res_bind (keys_in_range best cx (min_tkey (kc_class kc_keyvalue_NewTKey)) (max_tkey (kc_class kc_keyvalue_NewTKey)) s) decode_all.
(* GetKeysInRange *)
Definition kv_keyrange (a b : bytes) (s : store) : res (list bytes) :=
  res_bind (kv_new_tkey a) (fun ta => res_bind (kv_new_tkey b) (fun tb =>
  res_bind (keys_in_range best cx ta tb s) decode_all)).
(* keyrangevalues: ProcessRange.  (The callback skips kv.V == nil; with C05-1-fix the range hands
   an empty stored value over as a non-nil empty slice, so nothing is skipped.) *)
Definition kv_keyrangevalues (a b : bytes) (s : store) : res (list kv) :=
  res_bind (kv_new_tkey a) (fun ta => res_bind (kv_new_tkey b) (fun tb =>
  res_bind (get_range best cx ta tb s) (fun l =>
    (fix go (l : list kv) : res (list kv) :=
       match l with
       | [] => Ok []
       | (tk, v) :: r =>
         res_bind (decode_term_tkey kc_keyvalue_NewTKey tk) (fun k => res_bind (go r) (fun l' => Ok ((k, v) :: l')))
       end) l))).
(* GET key/k: GetData *)
Definition kv_get_data (k : bytes) (s : store) : res (option bytes) :=
  res_bind (kv_new_tkey k) (fun tk => Ok (point_get best cx tk s)).
End KeyValue.
