(* Model.MapLog: the in-memory label mapping of one labelmap version, the records each mutation
   appends to the mutation log, and the replay done at start-up (definitions only).

   live:    datatype/labelmap/equiv.go  addMergeToMapping :65, addCleaveToMapping :168,
            addSupervoxelSplitToMapping :196, addSplitToMapping :107 (and the Log* calls of mutate.go
            :142-:157, :417-:420, :842-:845, :1073-:1076)
   replay:  datatype/labelmap/vcache.go loadVersionMapping :178
   The mapping is a finite map supervoxel -> label with last write wins (setMapping); the split
   record list is what GET supervoxel-splits shows.  One version only (ancestry lookups, vmap.value
   by root distance, are not modelled here). *)
From DV Require Import Base.Prelude Model.Persist.
Local Open Scope N_scope.

Record mapst := { mp_map : list (N * N); mp_splits : list (N * N * N * N) }.   (* mutid, sv, remain, split *)
Definition mp_empty : mapst := {| mp_map := []; mp_splits := [] |}.

Definition set_map (s : mapst) (sv l : N) : mapst := {| mp_map := aset sv l (mp_map s); mp_splits := mp_splits s |}.
Definition set_maps (s : mapst) (svs : list N) (l : N) : mapst := fold_left (fun a sv => set_map a sv l) svs s.
Definition add_split (s : mapst) (r : N * N * N * N) : mapst := {| mp_map := mp_map s; mp_splits := mp_splits s ++ [r] |}.
Definition mapped (s : mapst) (sv : N) : N := match aget sv (mp_map s) with Some l => l | None => sv end.

Inductive mapop :=
| OMerge (mutid target : N) (svs : list N)
| OCleave (mutid cleaved : N) (svs : list N)
| OSvSplit (mutid sv remain split : N)
| OSplit (mutid target newlabel : N) (svsplits : list (N * N * N)).   (* sv, remain, split *)

Inductive logrec :=
| RMapping (mapped : N) (originals : list N)
| RSvSplit (mutid sv remain split : N)
| RSplit (mutid : N) (svsplits : list (N * N * N))
| RCleave (cleaved : N)
| RMerge.                                   (* MergeOp: ignored by the replay *)

(* what the running server does to its in-memory state *)
Definition live (s : mapst) (o : mapop) : mapst :=
  match o with
  | OMerge _ target svs => set_maps s svs target
  | OCleave _ cleaved svs => match svs with [] => s | _ => set_map (set_maps s svs cleaved) cleaved 0 end
  | OSvSplit mutid sv remain split =>
    let label := mapped s sv in
    add_split (set_map (set_map (set_map s split label) remain label) sv 0) (mutid, sv, remain, split)
  | OSplit mutid target newlabel svsplits =>
    let s1 := fold_left (fun a x => let '(sv, remain, split) := x in
                                    add_split (set_map (set_map (set_map a split newlabel) remain target) sv 0)
                                              (mutid, sv, remain, split)) svsplits s in
    s1
  end.

(* what it appends to the log; [twice] = the supervoxel split is logged by addSupervoxelSplitToMapping
   (equiv.go:219) AND again by SplitSupervoxel (mutate.go:1076), as the code stands *)
Definition records (twice : bool) (s : mapst) (o : mapop) : list logrec :=
  match o with
  | OMerge _ target svs => match svs with [] => [RMerge] | _ => [RMapping target svs; RMerge] end
  | OCleave _ cleaved svs => match svs with [] => [RCleave cleaved] | _ => [RMapping cleaved svs; RCleave cleaved] end
  | OSvSplit mutid sv remain split =>
    let label := mapped s sv in
    [RSvSplit mutid sv remain split; RMapping 0 [sv]; RMapping label [split; remain]]
    ++ (if twice then [RSvSplit mutid sv remain split] else [])
  | OSplit mutid target newlabel svsplits =>
    [RMapping 0 (map (fun x => fst (fst x)) svsplits);
     RMapping newlabel (map (fun x => snd x) svsplits);
     RMapping target (map (fun x => snd (fst x)) svsplits);
     RSplit mutid svsplits]
  end.

(* loadVersionMapping *)
Definition replay1 (s : mapst) (r : logrec) : mapst :=
  match r with
  | RMapping m origs => set_maps s origs m
  | RSvSplit mutid sv remain split => set_map (add_split s (mutid, sv, remain, split)) sv 0
  | RSplit mutid svsplits =>
    fold_left (fun a x => let '(sv, remain, split) := x in set_map (add_split a (mutid, sv, remain, split)) sv 0) svsplits s
  | RCleave cleaved => set_map s cleaved 0
  | RMerge => s
  end.
Definition replay (s : mapst) (rs : list logrec) : mapst := fold_left replay1 rs s.

(* a history: the live state and the log it leaves *)
Fixpoint run_ops (twice : bool) (s : mapst) (ops : list mapop) : mapst * list logrec :=
  match ops with
  | [] => (s, [])
  | o :: r => let '(s', lg) := run_ops twice (live s o) r in (s', records twice s o ++ lg)
  end.

(* the guard under which replay order does not matter: the labels a split introduces are new
   (C12: allocated labels are fresh) *)
Definition op_ok (o : mapop) : bool :=
  match o with
  | OSvSplit _ sv remain split => negb (sv =? remain) && negb (sv =? split)
  | OSplit _ _ _ _ => false          (* several supervoxels per split: map-iteration order; not covered *)
  | OCleave _ _ svs => match svs with [] => false | _ => true end   (* an empty cleave logs a record it did not apply *)
  | _ => true
  end.
