(* Model.Geometry: spatial key codec, packed block index and chunk arithmetic (C18, used by C17).
   The definitions r_... below are the text harness/cmd/gen/gen_arith.go generates from the Go
   source; the generated file (Gen/Arith.v, regenerated on every run) is compared with them in
   Proofs/Geometry.v (source_tie, by reflexivity), so an edit of the Go functions breaks that
   obligation while the run models (which must always build) keep using this copy:
     dvid/point.go   Point3d.ToZYXBytes, Point3d.FromZYXBytes, Point3d.Chunk
     datatype/common/labels/index.go  EncodeBlockIndex, DecodeBlockIndex, BlockIndexToIZYXString
   This file only names the generated functions and adds what the translator does not produce:
   the zero-divisor panic of Chunk, byte-string comparison, the (z,y,x) order.
   Coordinates are Z; int32/uint64 wrap-around is explicit (Base.WrapZ).  No proofs here. *)
From DV Require Import Base.Prelude Base.WrapZ.
From Coq Require Import String.
Local Open Scope Z_scope.

(* datatype/common/labels: func EncodeBlockIndex *)
Definition r_EncodeBlockIndex (v_x : Z) (v_y : Z) (v_z : Z) :=
  let v_zyx := 0 in
  let '(v_zyx, v_z) := if (v_z <? 0) then (let v_zyx := (Z.lor v_zyx 1048576) in let v_z := (wS 32 (- v_z)) in (v_zyx, v_z)) else ( (v_zyx, v_z)) in
  let v_zyx := (Z.lor v_zyx (wU 64 (Z.land v_z 1048575))) in
  let v_zyx := (wU 64 (Z.shiftl v_zyx 21)) in
  let '(v_zyx, v_y) := if (v_y <? 0) then (let v_zyx := (Z.lor v_zyx 1048576) in let v_y := (wS 32 (- v_y)) in (v_zyx, v_y)) else ( (v_zyx, v_y)) in
  let v_zyx := (Z.lor v_zyx (wU 64 (Z.land v_y 1048575))) in
  let v_zyx := (wU 64 (Z.shiftl v_zyx 21)) in
  let '(v_zyx, v_x) := if (v_x <? 0) then (let v_zyx := (Z.lor v_zyx 1048576) in let v_x := (wS 32 (- v_x)) in (v_zyx, v_x)) else ( (v_zyx, v_x)) in
  let v_zyx := (Z.lor v_zyx (wU 64 (Z.land v_x 1048575))) in
  v_zyx.

(* datatype/common/labels: func DecodeBlockIndex *)
Definition r_DecodeBlockIndex (v_zyx : Z) :=
  let v_x := 0 in
  let v_y := 0 in
  let v_z := 0 in
  let v_x := (wS 32 (Z.land v_zyx 1048575)) in
  let v_x := if (negb ((Z.land v_zyx 1048576) =? 0)) then (let v_x := (wS 32 (- v_x)) in v_x) else ( v_x) in
  let v_zyx := (Z.shiftr v_zyx 21) in
  let v_y := (wS 32 (Z.land v_zyx 1048575)) in
  let v_y := if (negb ((Z.land v_zyx 1048576) =? 0)) then (let v_y := (wS 32 (- v_y)) in v_y) else ( v_y) in
  let v_zyx := (Z.shiftr v_zyx 21) in
  let v_z := (wS 32 (Z.land v_zyx 1048575)) in
  let v_z := if (negb ((Z.land v_zyx 1048576) =? 0)) then (let v_z := (wS 32 (- v_z)) in v_z) else ( v_z) in
  (v_x, v_y, v_z).

(* datatype/common/labels: func BlockIndexToIZYXString *)
Definition r_BlockIndexToIZYXString (v_zyx : Z) :=
  let v_x := 0 in let v_y := 0 in let v_z := 0 in
  let v_x := (wS 32 (Z.land v_zyx 1048575)) in
  let v_x := if (negb ((Z.land v_zyx 1048576) =? 0)) then (let v_x := (wS 32 (- v_x)) in v_x) else ( v_x) in
  let v_zyx := (Z.shiftr v_zyx 21) in
  let v_y := (wS 32 (Z.land v_zyx 1048575)) in
  let v_y := if (negb ((Z.land v_zyx 1048576) =? 0)) then (let v_y := (wS 32 (- v_y)) in v_y) else ( v_y) in
  let v_zyx := (Z.shiftr v_zyx 21) in
  let v_z := (wS 32 (Z.land v_zyx 1048575)) in
  let v_z := if (negb ((Z.land v_zyx 1048576) =? 0)) then (let v_z := (wS 32 (- v_z)) in v_z) else ( v_z) in
  (v_x, v_y, v_z).
Definition r_BlockIndexToIZYXString_via : string := "dvid.ChunkPoint3d.ToIZYXString"%string.

(* dvid: func Point3d.ToZYXBytes *)
Definition r_Point3d_ToZYXBytes (v_p_0 : Z) (v_p_1 : Z) (v_p_2 : Z) :=
  let v_buf := bmake 12 in
  match bput_be32 v_buf 0 4 (wU 32 (wS 64 ((wS 64 v_p_2) - (-2147483648)))) with None => Panic | Some v_buf =>
  match bput_be32 v_buf 4 8 (wU 32 (wS 64 ((wS 64 v_p_1) - (-2147483648)))) with None => Panic | Some v_buf =>
  match bput_be32 v_buf 8 12 (wU 32 (wS 64 ((wS 64 v_p_0) - (-2147483648)))) with None => Panic | Some v_buf =>
  Ok v_buf end end end.

(* dvid: func Point3d.FromZYXBytes *)
Definition r_Point3d_FromZYXBytes (v_zyx : list Z) :=
  let v_p_0 := 0 in
  let v_p_1 := 0 in
  let v_p_2 := 0 in
  if (negb ((Z.of_nat (List.length v_zyx)) =? 12)) then Err else
  match bget_be32 v_zyx 0 4 with None => Panic | Some t_1 =>
  let v_z := (wS 32 (wS 64 ((wS 64 t_1) + (-2147483648)))) in
  match bget_be32 v_zyx 4 8 with None => Panic | Some t_2 =>
  let v_y := (wS 32 (wS 64 ((wS 64 t_2) + (-2147483648)))) in
  match bget_be32 v_zyx 8 12 with None => Panic | Some t_3 =>
  let v_x := (wS 32 (wS 64 ((wS 64 t_3) + (-2147483648)))) in
  let '(v_p_0, v_p_1, v_p_2) := (v_x, v_y, v_z) in
  Ok (v_p_0, v_p_1, v_p_2) end end end.

(* dvid: func Point3d.Chunk *)
Definition r_Point3d_Chunk (v_p_0 : Z) (v_p_1 : Z) (v_p_2 : Z) (v_size_0 : Z) (v_size_1 : Z) (v_size_2 : Z) :=
  let v_c0 := 0 in let v_c1 := 0 in let v_c2 := 0 in
  let v_s0 := v_size_0 in
  let v_s1 := v_size_1 in
  let v_s2 := v_size_2 in
  let v_c0 := if (v_p_0 <? 0) then (let v_c0 := (wS 32 (Z.quot (wS 32 ((wS 32 (v_p_0 - v_s0)) + 1)) v_s0)) in v_c0) else (let v_c0 := (wS 32 (Z.quot v_p_0 v_s0)) in v_c0) in
  let v_c1 := if (v_p_1 <? 0) then (let v_c1 := (wS 32 (Z.quot (wS 32 ((wS 32 (v_p_1 - v_s1)) + 1)) v_s1)) in v_c1) else (let v_c1 := (wS 32 (Z.quot v_p_1 v_s1)) in v_c1) in
  let v_c2 := if (v_p_2 <? 0) then (let v_c2 := (wS 32 (Z.quot (wS 32 ((wS 32 (v_p_2 - v_s2)) + 1)) v_s2)) in v_c2) else (let v_c2 := (wS 32 (Z.quot v_p_2 v_s2)) in v_c2) in
  (v_c0, v_c1, v_c2).



Definition pt : Type := (Z * Z * Z)%type.   (* (x, y, z), as dvid.Point3d{x,y,z} *)
Definition px (p : pt) : Z := fst (fst p).
Definition py (p : pt) : Z := snd (fst p).
Definition pz (p : pt) : Z := snd p.
Definition pt_is32 (p : pt) : Prop := is32 (px p) /\ is32 (py p) /\ is32 (pz p).
Definition pt_is32b (p : pt) : bool := is32b (px p) && is32b (py p) && is32b (pz p).
Definition pt_eqb (p q : pt) : bool := (px p =? px q) && (py p =? py q) && (pz p =? pz q).

(* dvid/point.go:738 Point3d.ToZYXBytes == dvid/index.go:298 IndexZYX.Bytes == IZYXString(...) *)
Definition to_zyx (p : pt) : res (list Z) := r_Point3d_ToZYXBytes (px p) (py p) (pz p).
(* dvid/point.go:747 Point3d.FromZYXBytes == dvid/index.go:304 IndexZYX.IndexFromBytes
   == IZYXString.IndexZYX / Unpack / ToChunkPoint3d *)
Definition from_zyx (b : list Z) : res pt := r_Point3d_FromZYXBytes b.

(* Go's bytes.Compare / string comparison on byte strings *)
Fixpoint bytes_cmp (a b : list Z) : comparison :=
  match a, b with
  | [], [] => Eq
  | [], _ :: _ => Lt
  | _ :: _, [] => Gt
  | x :: a', y :: b' => match x ?= y with Eq => bytes_cmp a' b' | c => c end
  end.

(* the order the keys are documented to have: z, then y, then x *)
Definition zyx_cmp (p q : pt) : comparison :=
  match pz p ?= pz q with
  | Eq => match py p ?= py q with Eq => px p ?= px q | c => c end
  | c => c
  end.

(* datatype/common/labels/index.go:19, :53, :73 *)
Definition encode_block_index (p : pt) : Z := r_EncodeBlockIndex (px p) (py p) (pz p).
Definition decode_block_index (w : Z) : pt := r_DecodeBlockIndex w.
Definition block_index_to_izyx (w : Z) : res (list Z) := to_zyx (r_BlockIndexToIZYXString w).
(* the callee named in the Go source must be the key encoder modelled by to_zyx *)
Definition block_index_to_izyx_via_ok : bool :=
  String.eqb r_BlockIndexToIZYXString_via "dvid.ChunkPoint3d.ToIZYXString".

Definition in_blockindex_range (c : Z) : Prop := - 2 ^ 20 < c < 2 ^ 20.
Definition in_blockindex_rangeb (c : Z) : bool := (- 2 ^ 20 <? c) && (c <? 2 ^ 20).

(* dvid/point.go:599 Point3d.Chunk: integer division by a zero block size is a Go run-time panic *)
Definition chunk_pt (p size : pt) : res pt :=
  if (px size =? 0) || (py size =? 0) || (pz size =? 0) then Panic
  else Ok (r_Point3d_Chunk (px p) (py p) (pz p) (px size) (py size) (pz size)).

(* one coordinate of Chunk, for the run-length model *)
Definition chunk1 (p s : Z) : Z :=
  if p <? 0 then wS 32 (Z.quot (wS 32 (wS 32 (p - s) + 1)) s) else wS 32 (Z.quot p s).
