(* Model.Geometry: spatial key codec, packed block index and chunk arithmetic (C18, used by C17).
   The arithmetic itself is GENERATED from the Go source (Gen/Arith.v, by harness/cmd/gen/gen_arith.go):
     dvid/point.go   Point3d.ToZYXBytes, Point3d.FromZYXBytes, Point3d.Chunk
     datatype/common/labels/index.go  EncodeBlockIndex, DecodeBlockIndex, BlockIndexToIZYXString
   This file only names the generated functions and adds what the translator does not produce:
   the zero-divisor panic of Chunk, byte-string comparison, the (z,y,x) order.
   Coordinates are Z; int32/uint64 wrap-around is explicit (Base.WrapZ).  No proofs here. *)
From DV Require Import Base.Prelude Base.WrapZ Gen.Arith.
From Coq Require Import String.
Local Open Scope Z_scope.

Definition pt : Type := (Z * Z * Z)%type.   (* (x, y, z), as dvid.Point3d{x,y,z} *)
Definition px (p : pt) : Z := fst (fst p).
Definition py (p : pt) : Z := snd (fst p).
Definition pz (p : pt) : Z := snd p.
Definition pt_is32 (p : pt) : Prop := is32 (px p) /\ is32 (py p) /\ is32 (pz p).
Definition pt_is32b (p : pt) : bool := is32b (px p) && is32b (py p) && is32b (pz p).
Definition pt_eqb (p q : pt) : bool := (px p =? px q) && (py p =? py q) && (pz p =? pz q).

(* dvid/point.go:738 Point3d.ToZYXBytes == dvid/index.go:298 IndexZYX.Bytes == IZYXString(...) *)
Definition to_zyx (p : pt) : res (list Z) := g_Point3d_ToZYXBytes (px p) (py p) (pz p).
(* dvid/point.go:747 Point3d.FromZYXBytes == dvid/index.go:304 IndexZYX.IndexFromBytes
   == IZYXString.IndexZYX / Unpack / ToChunkPoint3d *)
Definition from_zyx (b : list Z) : res pt := g_Point3d_FromZYXBytes b.

(* Go's bytes.Compare / string comparison on byte strings *)
Fixpoint bytes_cmp (a b : list Z) : comparison :=
  match a, b with
  | [], [] => Eq
  | [], _ :: _ => Lt
  | _ :: _, [] => Gt
  | x :: a', y :: b' => match x ?= y with Eq => bytes_cmp a' b' | c => c end
  end.

(* the order the keys are documented to have: z, then y, then x *)
Definition zyx_cmp (p q : pt) : comparison :=
  match pz p ?= pz q with
  | Eq => match py p ?= py q with Eq => px p ?= px q | c => c end
  | c => c
  end.

(* datatype/common/labels/index.go:19, :53, :73 *)
Definition encode_block_index (p : pt) : Z := g_EncodeBlockIndex (px p) (py p) (pz p).
Definition decode_block_index (w : Z) : pt := g_DecodeBlockIndex w.
Definition block_index_to_izyx (w : Z) : res (list Z) := to_zyx (g_BlockIndexToIZYXString w).
(* the callee named in the Go source must be the key encoder modelled by to_zyx *)
Definition block_index_to_izyx_via_ok : bool :=
  String.eqb g_BlockIndexToIZYXString_via "dvid.ChunkPoint3d.ToIZYXString".

Definition in_blockindex_range (c : Z) : Prop := - 2 ^ 20 < c < 2 ^ 20.
Definition in_blockindex_rangeb (c : Z) : bool := (- 2 ^ 20 <? c) && (c <? 2 ^ 20).

(* dvid/point.go:599 Point3d.Chunk: integer division by a zero block size is a Go run-time panic *)
Definition chunk_pt (p size : pt) : res pt :=
  if (px size =? 0) || (py size =? 0) || (pz size =? 0) then Panic
  else Ok (g_Point3d_Chunk (px p) (py p) (pz p) (px size) (py size) (pz size)).

(* one coordinate of Chunk, for the run-length model *)
Definition chunk1 (p s : Z) : Z :=
  if p <? 0 then wS 32 (Z.quot (wS 32 (wS 32 (p - s) + 1)) s) else wS 32 (Z.quot p s).
