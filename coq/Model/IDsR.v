(* Model.IDsR: the label counters of a labelmap instance as the REPAIRED code runs them (definitions only).

   Differences to the machine [lstep] of Model.IDs (which keeps the code as it stood for the _refuted
   theorems):
   * fix f4ecbcf: the ingest paths call updateBlockMaxLabel synchronously and BEFORE the block is
     written (datatype/labelmap/write.go:195 putChunk, :349 writeBlocks, :524 storeBlocks): a block's
     labels are in the volume only after the update task of that block has completed.  [LIngest] only
     queues the tasks; [LBgWrite i] completes task i and then its block is stored.
   * fix 5404b81: the Lock section of updateBlockMaxLabel (labelmap.go:2217) assigns MaxLabel[v] only
     if the stored value is absent or smaller, and raises MaxRepoLabel separately.
   * fix db6bd45: the initial state is [l_fresh] (repo-wide maximum persisted at creation).
   * process death inside the Lock section of updateBlockMaxLabel / updateMaxLabel, after any number of
     its (up to two) Puts, is an event of its own.

   Persistence assumption: a Put that returned survives process death (the persisted fields of a
   state are carried over a crash unchanged), and a Put that did not happen leaves the old value. *)
From DV Require Import Base.Prelude Model.Persist Model.IDs Gen.Consts.
Local Open Scope N_scope.

Inductive revent :=
| RE (e : levent)                       (* alphabet of Model.IDs *)
| RWriteCrash (i : nat) (k : nat)       (* update task i is killed inside its Lock section after k Puts;
                                           its block is never stored *)
| RSetMaxCrash (v l : N) (k : nat).     (* updateMaxLabel (POST maxlabel ...) killed after k Puts *)

(* the Lock section shared by updateBlockMaxLabel and updateMaxLabel: MaxLabel[v] := x if [rv],
   MaxRepoLabel := x if exceeded, each followed by its Put; k = Puts performed (2 = all that are due) *)
Definition r_section (s : lstate) (v x : N) (rv : bool) (k : nat) (pending : list (N * N * option N)) : lstate :=
  let over := l_maxrepo s <? x in
  let pv := rv && Nat.leb 1 k in
  let prp := over && Nat.leb (if rv then 2 else 1) k in
  {| l_maxv := if rv then aset v x (l_maxv s) else l_maxv s;
     l_maxrepo := if over then x else l_maxrepo s;
     l_next := l_next s;
     l_pmaxv := if pv then aset v x (l_pmaxv s) else l_pmaxv s;
     l_pmaxrepo := if prp then Some x else l_pmaxrepo s;
     l_pnext := l_pnext s; l_present := l_present s; l_pending := pending;
     l_lost := l_lost s; l_up := true |}.

(* "stored, found := d.MaxLabel[v]; !found || stored < x" *)
Definition absent_or_below (s : lstate) (v x : N) : bool :=
  match aget v (l_maxv s) with None => true | Some st => st <? x end.

Definition rstep (s : lstate) (e : revent) : lstate * option (N * N) :=
  if negb (l_up s) then
    match e with
    | RE e' => lstep s e'
    | _ => (s, None)
    end
  else
  match e with
  | RE (LIngest v bms) =>
    (* the request is being served: one update task per block, nothing stored yet *)
    (set_pending s (l_pending s ++ map (fun bm => (v, bm, None)) bms), None)
  | RE (LBgWrite i) =>
    match nth_remove i (l_pending s) with
    | Some ((v, bm, Some c), rest) =>
      let s1 := if c <? bm then r_section s v bm (absent_or_below s v bm) 2 rest else set_pending s rest in
      (add_present s1 [bm], None)            (* ... and then the block is written *)
    | _ => (s, None)
    end
  | RE e' => lstep s e'                      (* allocations, killed allocations, reads, updateMaxLabel,
                                                repositioning, crash: as in Model.IDs *)
  | RWriteCrash i k =>
    match nth_remove i (l_pending s) with
    | Some ((v, bm, Some c), rest) =>
      if c <? bm then (l_down (r_section s v bm (absent_or_below s v bm) k rest), None) else (l_down s, None)
    | _ => (l_down s, None)
    end
  | RSetMaxCrash v l k =>
    if absent_or_below s v l then (l_down (r_section s v l true k (l_pending s)), None) else (l_down s, None)
  end.

Fixpoint rrun (s : lstate) (evs : list revent) : lstate * list (N * N) :=
  match evs with
  | [] => (s, [])
  | e :: r =>
    let '(s1, o) := rstep s e in
    let '(s2, out) := rrun s1 r in
    (s2, match o with Some x => x :: out | None => out end)
  end.

Definition r_no_reposition (evs : list revent) : bool :=
  forallb (fun e => match e with RE (LSetNext _) => false | _ => true end) evs.

(* POST index / POST indices as written (labelidx.go:288-301, :337-350): the index is Put first and
   updateMaxLabel is called afterwards.  Killed in between: the label is in the volume, no counter
   has moved. *)
Definition r_index_killed (s : lstate) (l : N) : lstate := l_down (add_present s [l]).
