(* Model.RepoRun: executable checkers used by Run/cases_C07.v (no proofs).

   A case is one request sequence run on a fresh datastore.  Each step carries the request (with
   its oracle arguments filled in from what the implementation did), the class of the HTTP
   response and the change of the implementation's observable state: facts read from
   GET /api/repos/info, GET /api/repo/{uuid}/info, GET /api/repo/{root}/branch-versions/{name}
   and datastore.MatchingUUID("root:branch"), as a delta against the facts of the previous step.

   model_ok : the facts and the response class are what Model.Repo (repaired) computes.
   spec_class : the property itself (RepoInv and the error frame) evaluated as a boolean on the
   implementation's facts alone -- it never looks at the model state. *)
From DV Require Import Base.Prelude Model.Repo Model.RepoExt.
From Coq Require Import String Ascii.
From stdpp Require Import gmap strings.
Local Open Scope string_scope.

(* ---- helpers for writing cases compactly ---- *)
Definition u (s : string) : string := s.
Definition cat (a b : string) : string := a ++ b.
Fixpoint pre (n : nat) (s : string) : string :=
  match n, s with
  | S n', String c r => String c (pre n' r)
  | _, _ => EmptyString
  end.

(* canonical stand-in for the k-th generated UUID (k < 256) in the exhaustive enumeration: two hex
   digits of k, then thirty zeros *)
Definition hexdigit (n : nat) : ascii :=
  ascii_of_nat (if Nat.ltb n 10 then 48 + n else 87 + n).
Definition cu (k : nat) : string :=
  String (hexdigit (Nat.div k 16)) (String (hexdigit (Nat.modulo k 16)) "000000000000000000000000000000").

Inductive oresp := ODone | OFail | OCrash.
Definition oresp_eqb (a b : oresp) : bool :=
  match a, b with ODone, ODone | OFail, OFail | OCrash, OCrash => true | _, _ => false end.
Definition class_of_outcome {A} (o : outcome A) : option oresp :=
  match o with Done _ => Some ODone | Fail => Some OFail | Crash => Some OCrash | Hang => None end.

(* ---- observed facts ---- *)
Inductive fact :=
| FRepo (key root dagroot : string) (data : list string)         (* repos/info: one entry *)
| FNode (repo uu : string) (v : N) (br : string) (locked : bool) (ps cs : list N)
| FRepoOf (uu : string) (root : option string)                    (* GET /api/repo/uu/info -> Root *)
| FAddr (q : string) (r : option string)                          (* MatchingUUID(q) *)
| FBV (repo name : string) (r : option (list string))             (* branch-versions *)
| FU2V (uu : string) (r : option N)                               (* datastore.VersionFromUUID *)
| FV2U (v : N) (r : option string)                                (* datastore.UUIDFromVersion *)
| FRepos (uu : string) (root : option string)                     (* datastore.GetRepoRoot: m.repos itself *)
| FLocked (uu : string) (r : option bool).                        (* datastore.LockedUUID, exact uuid *)

Inductive delta := DSet (f : fact) | DDel (f : fact).   (* DDel: only the key fields are read *)

Definition same_key (a b : fact) : bool :=
  match a, b with
  | FRepo k _ _ _, FRepo k' _ _ _ => String.eqb k k'
  | FNode r x _ _ _ _ _, FNode r' x' _ _ _ _ _ => String.eqb r r' && String.eqb x x'
  | FRepoOf x _, FRepoOf x' _ => String.eqb x x'
  | FAddr q _, FAddr q' _ => String.eqb q q'
  | FBV r n _, FBV r' n' _ => String.eqb r r' && String.eqb n n'
  | FU2V x _, FU2V x' _ => String.eqb x x'
  | FV2U v _, FV2U v' _ => N.eqb v v'
  | FRepos x _, FRepos x' _ => String.eqb x x'
  | FLocked x _, FLocked x' _ => String.eqb x x'
  | _, _ => false
  end.

Definition apply_delta (fs : list fact) (d : delta) : list fact :=
  match d with
  | DSet f => f :: List.filter (fun g => negb (same_key f g)) fs
  | DDel f => List.filter (fun g => negb (same_key f g)) fs
  end.
Definition apply_deltas (fs : list fact) (ds : list delta) : list fact := fold_left apply_delta ds fs.

Definition step_obs := (xreq * oresp * list delta)%type.
Definition c07case := list step_obs.

(* ---- equality helpers ---- *)
Definition str_list_eqb := list_eqb String.eqb.
Definition n_list_eqb := list_eqb N.eqb.
Definition opt_eqb {A} (e : A -> A -> bool) (a b : option A) : bool :=
  match a, b with Some x, Some y => e x y | None, None => true | _, _ => false end.
Definition same_set (a b : list string) : bool :=
  forallb (fun x => in_list x b) a && forallb (fun x => in_list x a) b && Nat.eqb (length a) (length b).
Definition outcome_opt {A} (o : outcome A) : option (option A) :=
  match o with Done a => Some (Some a) | Fail => Some None | _ => None end.

(* ---- model side: does the model state agree with one observed fact ---- *)
Definition is_root_of (s : state) (key : string) : bool :=
  existsb (fun x => String.eqb (snd x) key) (map_to_list (st_roots s)).

Definition fact_ok (s : state) (f : fact) : bool :=
  match f with
  | FRepo key root dagroot data =>
    is_root_of s key &&
    match repo_by_uuid s key with
    | Some r => String.eqb (r_root r) root && String.eqb (r_root r) dagroot && same_set (r_data r) data
    | None => false
    end
  | FNode repo x v br locked ps cs =>
    match repo_by_uuid s repo with
    | Some r =>
      match r_nodes r !! v with
      | Some n => String.eqb (n_uuid n) x && String.eqb (n_branch n) br && Bool.eqb (n_locked n) locked
                  && n_list_eqb (n_parents n) ps && n_list_eqb (n_children n) cs
      | None => false
      end
    | None => false
    end
  | FRepoOf x root =>
    match outcome_opt (obind (matching s (u x)) (fun y => of_opt (option_map r_root (repo_by_uuid s y)))) with
    | Some r => opt_eqb String.eqb r root
    | None => false
    end
  | FAddr q r =>
    match outcome_opt (matching s (u q)) with
    | Some m => opt_eqb String.eqb m r
    | None => false
    end
  | FBV repo name r =>
    match outcome_opt (matching s (u repo)) with
    | Some (Some y) =>
      match repo_by_uuid s y with
      | Some rp => match outcome_opt (ancestry rp name) with
                   | Some m => opt_eqb str_list_eqb m r
                   | None => false
                   end
      | None => match r with None => true | _ => false end
      end
    | Some None => match r with None => true | _ => false end
    | None => false
    end
  | FU2V x r => opt_eqb N.eqb (st_u2v s !! x) r
  | FV2U v r => opt_eqb String.eqb (st_v2u s !! v) r
  | FRepos x root => opt_eqb String.eqb (option_map r_root (repo_by_uuid s x)) root
  | FLocked x r =>
    match outcome_opt (locked_uuid s x) with
    | Some m => opt_eqb Bool.eqb m r
    | None => false
    end
  end.

Definition count_nodes_of (key : string) (fs : list fact) : nat :=
  length (List.filter (fun f => match f with FNode r _ _ _ _ _ _ => String.eqb r key | _ => false end) fs).
Definition count_repos (fs : list fact) : nat :=
  length (List.filter (fun f => match f with FRepo _ _ _ _ => true | _ => false end) fs).

(* completeness: the implementation shows as many repos and, per repo, as many nodes as the model *)
Definition complete (s : state) (fs : list fact) : bool :=
  Nat.eqb (count_repos fs) (size (st_roots s)) &&
  forallb (fun f => match f with
                    | FRepo key _ _ _ =>
                      match repo_by_uuid s key with
                      | Some r => Nat.eqb (count_nodes_of key fs) (size (r_nodes r))
                      | None => false
                      end
                    | _ => true
                    end) fs.

Fixpoint model_run (fx : fixes) (xf : xfixes) (s : state) (fs : list fact) (c : c07case) : bool :=
  match c with
  | [] => true
  | (r, o, ds) :: rest =>
    let (s1, out) := xstep fx xf s r in
    let fs1 := apply_deltas fs ds in
    match class_of_outcome out with
    | Some k => oresp_eqb k o && forallb (fact_ok s1) fs1 && complete s1 fs1 && model_run fx xf s1 fs1 rest
    | None => false
    end
  end.
(* hideBranch: /repo has the code as found; once repo_patches/C07-8 is applied it has the repaired
   one.  The run is accepted when one of the two models reproduces every step of it. *)
Definition model_ok (c : c07case) : bool :=
  model_run repaired x_found init [] c || model_run repaired x_repaired init [] c.
(* the code as found, for runs against an unrepaired tree *)
Definition model_ok_as_found (c : c07case) : bool := model_run as_found x_found init [] c.

(* ---- property side: RepoInv as a boolean on the implementation's facts ---- *)
Record onode := mkON { on_repo : string; on_uuid : string; on_v : N; on_br : string; on_locked : bool;
                       on_ps : list N; on_cs : list N }.
Definition onodes (fs : list fact) : list onode :=
  flat_map (fun f => match f with FNode r x v b l ps cs => [mkON r x v b l ps cs] | _ => [] end) fs.
Definition orepos (fs : list fact) : list (string * string * string) :=
  flat_map (fun f => match f with FRepo k r d _ => [(k, r, d)] | _ => [] end) fs.
Definition nodes_of (key : string) (ns : list onode) : list onode :=
  List.filter (fun n => String.eqb (on_repo n) key) ns.
Definition find_v (ns : list onode) (v : N) : option onode := List.find (fun n => N.eqb (on_v n) v) ns.
Definition mem_n (x : N) (l : list N) : bool := existsb (N.eqb x) l.
Fixpoint nodup_by {A} (e : A -> A -> bool) (l : list A) : bool :=
  match l with [] => true | x :: r => negb (existsb (e x) r) && nodup_by e r end.

(* 1: one root per repo, and it is the node the repo names as its root *)
Definition single_root_b (fs : list fact) : bool :=
  let ns := onodes fs in
  forallb (fun '(k, r, d) =>
    String.eqb k r && String.eqb r d &&
    match List.filter (fun n => match on_ps n with [] => true | _ => false end) (nodes_of k ns) with
    | [n] => String.eqb (on_uuid n) r
    | _ => false
    end) (orepos fs).

(* 2: every parent and child link points at a node of the same repo that links back; no link twice *)
Definition mirror_b (fs : list fact) : bool :=
  let ns := onodes fs in
  forallb (fun n =>
    let rn := nodes_of (on_repo n) ns in
    nodup_by N.eqb (on_ps n) && nodup_by N.eqb (on_cs n) &&
    forallb (fun p => match find_v rn p with Some pn => mem_n (on_v n) (on_cs pn) | None => false end) (on_ps n) &&
    forallb (fun c => match find_v rn c with Some cn => mem_n (on_v n) (on_ps cn) | None => false end) (on_cs n)) ns.

(* 3: acyclic: repeatedly remove the nodes all of whose parents are gone *)
Fixpoint peel (fuel : nat) (ns : list onode) : bool :=
  match fuel with
  | O => match ns with [] => true | _ => false end
  | S f =>
    match ns with
    | [] => true
    | _ =>
      let keep := List.filter (fun n => existsb (fun p => existsb (fun m => N.eqb (on_v m) p) ns) (on_ps n)) ns in
      if Nat.eqb (length keep) (length ns) then false else peel f keep
    end
  end.
Definition acyclic_b (fs : list fact) : bool :=
  let ns := onodes fs in
  forallb (fun '(k, _, _) => let rn := nodes_of k ns in peel (length rn) rn) (orepos fs).

(* 4: a UUID and a version id name one node; no empty UUID; a UUID resolves to the repo that holds it
      (or is refused because it is a proper prefix of another UUID: prefix matching is ambiguous);
      uuidToVersion, versionToUUID and m.repos hold exactly the identifiers of the nodes; a UUID of a
      deleted repo names nothing any more, by whatever route it is looked up *)
Definition ids_unique_b (fs : list fact) : bool :=
  let ns := onodes fs in
  nodup_by String.eqb (List.map on_uuid ns) && nodup_by N.eqb (List.map on_v ns) &&
  forallb (fun n => negb (String.eqb (on_uuid n) "")) ns &&
  forallb (fun f => match f with
    | FRepoOf x r =>
      match List.find (fun n => String.eqb (on_uuid n) x) ns with
      | Some n => match r with
                  | Some k => String.eqb k (on_repo n)
                  | None => existsb (fun m => String.prefix x (on_uuid m) && negb (String.eqb x (on_uuid m))) ns
                            || existsb (fun c => Ascii.eqb c ":") (list_ascii_of_string x)
                  end
      | None => match r with None => true | Some _ => existsb (fun m => String.prefix x (on_uuid m)) ns end
      end
    | FU2V x (Some v) => existsb (fun n => String.eqb (on_uuid n) x && N.eqb (on_v n) v) ns
    | FV2U v (Some x) => existsb (fun n => String.eqb (on_uuid n) x && N.eqb (on_v n) v) ns
    | FRepos x (Some k) => existsb (fun n => String.eqb (on_uuid n) x && String.eqb (on_repo n) k) ns
    | FRepos x None => negb (existsb (fun n => String.eqb (on_uuid n) x) ns)
    | FLocked x (Some b) => existsb (fun n => String.eqb (on_uuid n) x && Bool.eqb (on_locked n) b) ns
    | FLocked x None => negb (existsb (fun n => String.eqb (on_uuid n) x) ns)
    | FAddr q (Some y) =>
      (* a plain (prefix) reference resolves to an existing node whose UUID it prefixes *)
      if existsb (fun c => Ascii.eqb c ":") (list_ascii_of_string q) then true
      else String.prefix q y && existsb (fun n => String.eqb (on_uuid n) y) ns
    | FU2V x None => negb (existsb (fun n => String.eqb (on_uuid n) x) ns)
    | FV2U v None => negb (existsb (fun n => N.eqb (on_v n) v) ns)
    | _ => true end) fs.

(* 5: every parent is committed *)
Definition locked_parents_b (fs : list fact) : bool :=
  let ns := onodes fs in
  forallb (fun n => forallb (fun p => match find_v (nodes_of (on_repo n) ns) p with
                                      | Some pn => on_locked pn | None => false end) (on_ps n)) ns.

(* 6: every named branch is one chain whose leaf is what root:branch resolves to *)
Definition branch_chain_b (fs : list fact) : bool :=
  let ns := onodes fs in
  forallb (fun n =>
    let b := on_br n in
    if String.eqb b "" then true else
    let rn := nodes_of (on_repo n) ns in
    let bn := List.filter (fun m => String.eqb (on_br m) b) rn in
    let in_b (v : N) := existsb (fun m => N.eqb (on_v m) v) bn in
    (* one parent each; at most one child on the branch *)
    forallb (fun m => match on_ps m with [_] => true | _ => false end) bn &&
    forallb (fun m => Nat.leb (length (List.filter in_b (on_cs m))) 1) rn &&
    (* one first node, one leaf *)
    Nat.eqb (length (List.filter (fun m => negb (existsb in_b (on_ps m))) bn)) 1 &&
    match List.filter (fun m => negb (existsb in_b (on_cs m))) bn with
    | [leaf] =>
      forallb (fun f => match f with
                        | FAddr q r => if String.eqb q (on_repo n ++ ":" ++ b)
                                       then opt_eqb String.eqb r (Some (on_uuid leaf)) else true
                        | _ => true end) fs
    | _ => false
    end) ns.

(* 6 (continued): every branch has one head, the newest node carrying its name, and root:branch
   resolves to it -- the default branch ("", addressed as "master") included *)
Definition head_newest_b (fs : list fact) : bool :=
  let ns := onodes fs in
  forallb (fun n =>
    let rn := nodes_of (on_repo n) ns in
    let bn := List.filter (fun m => String.eqb (on_br m) (on_br n)) rn in
    if forallb (fun m => N.leb (on_v m) (on_v n)) bn then
      let label := if String.eqb (on_br n) "" then "master" else on_br n in
      forallb (fun f => match f with
                        | FAddr q r => if String.eqb q (on_repo n ++ ":" ++ label)
                                       then opt_eqb String.eqb r (Some (on_uuid n)) else true
                        | _ => true end) fs
    else true) ns.

(* class codes: 0 holds; 1..6 the clauses above; 7 an error answer changed the observable state *)
(* 6 (continued): the default branch is named only by "" (and addressed as "master"): no node carries
   the literal branch name "master", whatever the client sent *)
Definition no_master_branch_b (fs : list fact) : bool :=
  forallb (fun n => negb (String.eqb (on_br n) "master")) (onodes fs).

Definition inv_class (fs : list fact) : nat :=
  if negb (single_root_b fs) then 1
  else if negb (mirror_b fs) then 2
  else if negb (acyclic_b fs) then 3
  else if negb (ids_unique_b fs) then 4
  else if negb (locked_parents_b fs) then 5
  else if negb (branch_chain_b fs) || negb (head_newest_b fs) || negb (no_master_branch_b fs) then 6
  else 0.

Definition state_delta (d : delta) : bool := true.

(* 4 (continued): a UUID the caller assigned (root of a new repo, "uuid" of newversion / branch, the
   tag of a tag request) is, when the request is answered with success, the UUID of the node that
   request created -- byte for byte *)
Definition assigned_of (r : xreq) : option string :=
  match r with
  | XB (RNewRepo (Some a) _ _) => Some a
  | XB (RNewVersion _ a _) => if String.eqb a "" then None else Some a
  | XB (RBranch _ _ a _) => if String.eqb a "" then None else Some a
  | XB (RTag _ t) => Some t
  | _ => None
  end.
Definition assigned_honoured_b (fs : list fact) (r : xreq) (ds : list delta) : bool :=
  match assigned_of r with
  | None => true
  | Some a =>
    let old_vs := List.map on_v (onodes fs) in
    existsb (fun d => match d with
                      | DSet (FNode _ x v _ _ _ _) => String.eqb x a && negb (mem_n v old_vs)
                      | _ => false end) ds
  end.

(* Known findings (findings/C07.json), each recognised by exactly its shape; every other class on
   the same requests still alarms.
   31: an accepted hide-branch left a surviving node with a parent that is no node any more (the
       only clause broken is the mirror clause, class 2);
   32: an accepted make-master left the branch clause (class 6) broken: the name given to the old
       master chain is "master" or in use, or the chain holds a merge node. *)
Definition dangling_parent_b (fs : list fact) : bool :=
  let ns := onodes fs in
  existsb (fun n => existsb (fun p => match find_v (nodes_of (on_repo n) ns) p with Some _ => false | None => true end)
                            (on_ps n)) ns.
Definition known_shape (r : xreq) (fs1 : list fact) (k : nat) : nat :=
  match r with
  | XHideBranch _ _ => if Nat.eqb k 2 && dangling_parent_b fs1 then 31 else k
  | XMakeMaster _ _ => if Nat.eqb k 6 then 32 else k
  | _ => k
  end.

Fixpoint spec_run (fs : list fact) (c : c07case) : nat :=
  match c with
  | [] => 0
  | (r, o, ds) :: rest =>
    let fs1 := apply_deltas fs ds in
    match o, List.filter state_delta ds with
    | ODone, _ =>
      if negb (assigned_honoured_b fs r ds) then 4 else
      match inv_class fs1 with
      | O => spec_run fs1 rest
      | k => known_shape r fs1 k
      end
    | _, [] =>
      match inv_class fs1 with
      | O => spec_run fs1 rest
      | k => k
      end
    | _, _ :: _ => 7
    end
  end.
Definition spec_class (c : c07case) : nat := spec_run [] c.

(* cases carry a kind tag (0: ordinary; no other kind is in use) *)
Definition kcase := (nat * c07case)%type.
Definition spec_class_k (kc : kcase) : nat := spec_class (snd kc).

Fixpoint classify_from (i : nat) (l : list kcase) : list (nat * nat) :=
  match l with
  | [] => []
  | c :: r => let k := spec_class_k c in
              if Nat.eqb k 0 then classify_from (S i) r else (i, k) :: classify_from (S i) r
  end.
Definition c07_spec_fail (l : list kcase) : list (nat * nat) := classify_from 0 l.
Definition c07_model_mismatch (l : list kcase) : list nat := find_idx (fun c => negb (model_ok (snd c))) l.
