(* Base.Lex: lexicographic comparison of byte lists = Go's bytes.Compare, prefixes,
   and the facts about it that key layouts rely on. *)
From DV Require Import Base.Prelude Base.Int.
From Coq Require Import ZifyN ZifyNat ZifyBool.
Ltac Zify.zify_post_hook ::= Z.div_mod_to_equations.
Local Open Scope N_scope.

(* bytes.Compare(a, b): -1 = Lt, 0 = Eq, +1 = Gt *)
Fixpoint lex_compare (a b : bytes) : comparison :=
  match a, b with
  | [], [] => Eq
  | [], _ :: _ => Lt
  | _ :: _, [] => Gt
  | x :: a', y :: b' =>
    match x ?= y with
    | Eq => lex_compare a' b'
    | c => c
    end
  end.

Definition lex_leb (a b : bytes) : bool :=
  match lex_compare a b with Gt => false | _ => true end.
Definition lex_ltb (a b : bytes) : bool :=
  match lex_compare a b with Lt => true | _ => false end.
Definition lex_le (a b : bytes) : Prop := lex_compare a b <> Gt.
Definition lex_lt (a b : bytes) : Prop := lex_compare a b = Lt.

(* closed interval test, the shape of every range scan in storage/badger:
   Seek(lo) then stop at the first key with bytes.Compare(k, hi) > 0 *)
Definition in_range (lo hi k : bytes) : Prop := lex_le lo k /\ lex_le k hi.
Definition in_rangeb (lo hi k : bytes) : bool := lex_leb lo k && lex_leb k hi.

(* first comparison decides, the second breaks ties *)
Definition cmp_then (c d : comparison) : comparison :=
  match c with Eq => d | _ => c end.

(* bytes.HasPrefix(a, p) *)
Fixpoint prefixb (p a : bytes) : bool :=
  match p, a with
  | [], _ => true
  | _ :: _, [] => false
  | x :: p', y :: a' => (x =? y) && prefixb p' a'
  end.
Definition is_prefix (p a : bytes) : Prop := exists s, a = p ++ s.

(* two byte strings that may safely stand at the same place of a key:
   equal, or neither a prefix of the other *)
Definition prefix_free_pair (a b : bytes) : Prop :=
  a = b \/ (~ is_prefix a b /\ ~ is_prefix b a).
Definition prefix_free_pairb (a b : bytes) : bool :=
  bytes_eqb a b || (negb (prefixb a b) && negb (prefixb b a)).

(* ---- lemmas ---- *)

Lemma lex_compare_refl a : lex_compare a a = Eq.
Proof. induction a as [|x a IH]; simpl; [reflexivity|]. now rewrite N.compare_refl. Qed.

Lemma lex_compare_eq a b : lex_compare a b = Eq <-> a = b.
Proof.
  revert b; induction a as [|x a IH]; destruct b as [|y b]; simpl; split; intro H;
    try reflexivity; try discriminate.
  - destruct (x ?= y) eqn:E; try discriminate. apply N.compare_eq in E. apply IH in H. congruence.
  - inversion H; subst. rewrite N.compare_refl. now apply IH.
Qed.

Lemma lex_compare_antisym a b : lex_compare b a = CompOpp (lex_compare a b).
Proof.
  revert b; induction a as [|x a IH]; destruct b as [|y b]; simpl; try reflexivity.
  rewrite (N.compare_antisym x y). destruct (x ?= y); simpl; auto.
Qed.

Lemma lex_compare_lt_trans a b c :
  lex_compare a b = Lt -> lex_compare b c = Lt -> lex_compare a c = Lt.
Proof.
  revert b c; induction a as [|x a IH]; destruct b as [|y b]; destruct c as [|z c]; simpl;
    intros H1 H2; try reflexivity; try discriminate.
  destruct (x ?= y) eqn:Exy; try discriminate;
  destruct (y ?= z) eqn:Eyz; try discriminate.
  - apply N.compare_eq in Exy, Eyz. subst. rewrite N.compare_refl. eauto.
  - apply N.compare_eq in Exy. subst. now rewrite Eyz.
  - apply N.compare_eq in Eyz. subst. now rewrite Exy.
  - rewrite N.compare_lt_iff in *. assert (x < z) by lia.
    apply N.compare_lt_iff in H. now rewrite H.
Qed.

Lemma lex_le_refl a : lex_le a a.
Proof. unfold lex_le. rewrite lex_compare_refl. discriminate. Qed.

Lemma lex_le_cases a b : lex_le a b <-> (lex_compare a b = Lt \/ a = b).
Proof.
  unfold lex_le. rewrite <- lex_compare_eq. destruct (lex_compare a b); split; intro H;
    try (now left); try (now right); try congruence; try discriminate.
  destruct H; discriminate.
Qed.

Lemma lex_le_trans a b c : lex_le a b -> lex_le b c -> lex_le a c.
Proof.
  rewrite !lex_le_cases. intros [H1|H1] [H2|H2]; subst; auto.
  left. eapply lex_compare_lt_trans; eauto.
Qed.

Lemma lex_le_antisym a b : lex_le a b -> lex_le b a -> a = b.
Proof.
  rewrite !lex_le_cases. intros [H1|H1] [H2|H2]; subst; auto.
  rewrite lex_compare_antisym, H1 in H2. discriminate.
Qed.

Lemma lex_lt_le_trans a b c : lex_lt a b -> lex_le b c -> lex_lt a c.
Proof.
  unfold lex_lt. rewrite lex_le_cases. intros H1 [H2|H2]; subst; auto.
  eapply lex_compare_lt_trans; eauto.
Qed.

Lemma lex_le_lt_trans a b c : lex_le a b -> lex_lt b c -> lex_lt a c.
Proof.
  unfold lex_lt. rewrite lex_le_cases. intros [H1|H1] H2; subst; auto.
  eapply lex_compare_lt_trans; eauto.
Qed.

Lemma lex_lt_not_le a b : lex_lt a b -> ~ lex_le b a.
Proof.
  unfold lex_lt, lex_le. intros H. rewrite lex_compare_antisym, H. simpl. congruence.
Qed.

Lemma lex_gt_lt a b : lex_compare a b = Gt <-> lex_compare b a = Lt.
Proof. rewrite (lex_compare_antisym a b). destruct (lex_compare a b); simpl; split; congruence. Qed.

Lemma lex_leb_le a b : lex_leb a b = true <-> lex_le a b.
Proof. unfold lex_leb, lex_le. destruct (lex_compare a b); split; congruence. Qed.

Lemma lex_ltb_lt a b : lex_ltb a b = true <-> lex_lt a b.
Proof. unfold lex_ltb, lex_lt. destruct (lex_compare a b); split; congruence. Qed.

Lemma in_rangeb_in_range lo hi k : in_rangeb lo hi k = true <-> in_range lo hi k.
Proof. unfold in_rangeb, in_range. now rewrite andb_true_iff, !lex_leb_le. Qed.

Lemma lex_le_total a b : lex_le a b \/ lex_lt b a.
Proof.
  unfold lex_le, lex_lt. rewrite (lex_compare_antisym a b).
  destruct (lex_compare a b); simpl; auto; left; congruence.
Qed.

(* common prefix *)
Lemma lex_compare_app_same p a b : lex_compare (p ++ a) (p ++ b) = lex_compare a b.
Proof. induction p as [|x p IH]; simpl; [reflexivity|]. now rewrite N.compare_refl. Qed.

Lemma lex_compare_cons x a b : lex_compare (x :: a) (x :: b) = lex_compare a b.
Proof. simpl. now rewrite N.compare_refl. Qed.

(* equal-length fields: the first field decides, the remainder breaks ties *)
Lemma lex_compare_app_eqlen a b x y :
  length a = length b ->
  lex_compare (a ++ x) (b ++ y) = cmp_then (lex_compare a b) (lex_compare x y).
Proof.
  revert b; induction a as [|u a IH]; destruct b as [|w b]; simpl; intro L; try discriminate.
  - reflexivity.
  - destruct (u ?= w); simpl; auto.
Qed.

(* prefixes *)
Lemma prefixb_is_prefix p a : prefixb p a = true <-> is_prefix p a.
Proof.
  revert a; induction p as [|x p IH]; intro a.
  - simpl. split; auto. intros _. now exists a.
  - destruct a as [|y a]; simpl.
    + split; [discriminate|]. intros [s H]. discriminate.
    + rewrite andb_true_iff, N.eqb_eq, IH. split.
      * intros [-> [s ->]]. now exists s.
      * intros [s H]. inversion H; subst. split; auto. now exists s.
Qed.

Lemma is_prefix_refl a : is_prefix a a.
Proof. exists []. now rewrite app_nil_r. Qed.

Lemma is_prefix_length p a : is_prefix p a -> (length p <= length a)%nat.
Proof. intros [s ->]. rewrite app_length. lia. Qed.

Lemma is_prefix_same_length p a : is_prefix p a -> length p = length a -> p = a.
Proof.
  intros [s ->] L. rewrite app_length in L. destruct s; [now rewrite app_nil_r|simpl in L; lia].
Qed.

Lemma is_prefix_app_l p a s : is_prefix p a -> is_prefix p (a ++ s).
Proof. intros [t ->]. exists (t ++ s). now rewrite app_assoc. Qed.

(* a prefix sorts first *)
Lemma lex_prefix_le p s : lex_le p (p ++ s).
Proof.
  unfold lex_le. rewrite <- (app_nil_r p) at 1. rewrite lex_compare_app_same.
  destruct s; simpl; discriminate.
Qed.

(* strings that are not prefix related differ inside both, and that position decides *)
Lemma lex_compare_app_noprefix a b x y :
  ~ is_prefix a b -> ~ is_prefix b a ->
  lex_compare (a ++ x) (b ++ y) = lex_compare a b /\ lex_compare a b <> Eq.
Proof.
  revert b; induction a as [|u a IH]; intros b Hab Hba.
  - exfalso. apply Hab. now exists b.
  - destruct b as [|w b].
    + exfalso. apply Hba. now exists (u :: a).
    + simpl. destruct (u ?= w) eqn:E.
      * apply N.compare_eq in E. subst w. apply IH.
        -- intros [s H]. apply Hab. exists s. simpl. now rewrite H.
        -- intros [s H]. apply Hba. exists s. simpl. now rewrite H.
      * split; [reflexivity|discriminate].
      * split; [reflexivity|discriminate].
Qed.

Lemma lex_compare_app_pfp a b x y :
  prefix_free_pair a b ->
  lex_compare (a ++ x) (b ++ y) = cmp_then (lex_compare a b) (lex_compare x y).
Proof.
  intros [->|[H1 H2]].
  - now rewrite lex_compare_app_same, lex_compare_refl.
  - destruct (lex_compare_app_noprefix a b x y H1 H2) as [E N]. rewrite E.
    destruct (lex_compare a b); simpl; congruence.
Qed.

Lemma prefix_free_pairb_ok a b : prefix_free_pairb a b = true <-> prefix_free_pair a b.
Proof.
  unfold prefix_free_pairb, prefix_free_pair.
  rewrite orb_true_iff, andb_true_iff, !negb_true_iff, bytes_eqb_eq.
  rewrite <- !prefixb_is_prefix.
  destruct (prefixb a b), (prefixb b a); intuition congruence.
Qed.

Lemma prefix_free_pair_sym a b : prefix_free_pair a b -> prefix_free_pair b a.
Proof. intros [->|[H1 H2]]; [now left|right; auto]. Qed.

Lemma prefix_free_pair_eqlen a b : length a = length b -> prefix_free_pair a b.
Proof.
  intro L. destruct (bytes_eqb a b) eqn:E.
  - left. now apply bytes_eqb_eq.
  - right. split; intro H; apply is_prefix_same_length in H; auto; subst;
      rewrite (proj2 (bytes_eqb_eq _ _) eq_refl) in E; discriminate.
Qed.

(* terminated strings: if the terminator does not occur inside, no two are prefix related *)
Lemma terminated_prefix s1 s2 t :
  ~ In t s1 -> ~ In t s2 -> is_prefix (s1 ++ [t]) (s2 ++ [t]) -> s1 = s2.
Proof.
  revert s2; induction s1 as [|x s1 IH]; intros s2 N1 N2 [r H].
  - destruct s2 as [|y s2]; [reflexivity|]. simpl in H. inversion H; subst.
    exfalso. apply N2. now left.
  - destruct s2 as [|y s2].
    + simpl in H. inversion H; subst. destruct s1; discriminate.
    + simpl in H. inversion H; subst. f_equal. apply IH.
      * intro; apply N1; now right.
      * intro; apply N2; now right.
      * now exists r.
Qed.

Lemma terminated_prefix_free s1 s2 t :
  ~ In t s1 -> ~ In t s2 -> prefix_free_pair (s1 ++ [t]) (s2 ++ [t]).
Proof.
  intros N1 N2. destruct (bytes_eqb s1 s2) eqn:E.
  - apply bytes_eqb_eq in E. subst. now left.
  - right. split; intro H; apply terminated_prefix in H; auto; subst;
      rewrite (proj2 (bytes_eqb_eq _ _) eq_refl) in E; discriminate.
Qed.

Lemma prefix_free_pair_cons x a b : prefix_free_pair a b -> prefix_free_pair (x :: a) (x :: b).
Proof.
  intros [->|[H1 H2]]; [now left|right]. split; intros [s H]; inversion H; [apply H1|apply H2]; now exists s.
Qed.

Lemma prefix_free_pair_app p a b : prefix_free_pair a b -> prefix_free_pair (p ++ a) (p ++ b).
Proof. induction p; simpl; auto. intro H. apply prefix_free_pair_cons. auto. Qed.

Lemma prefix_free_pair_head x y a b : x <> y -> prefix_free_pair (x :: a) (y :: b).
Proof. intro N. right. split; intros [s H]; inversion H; congruence. Qed.

(* big-endian fixed-width integers sort like the integers *)
Lemma lex_compare_snoc_eqlen a b x y :
  length a = length b ->
  lex_compare (a ++ [x]) (b ++ [y]) = cmp_then (lex_compare a b) (x ?= y).
Proof.
  intro L. rewrite lex_compare_app_eqlen by exact L. simpl. now destruct (x ?= y).
Qed.

Lemma le_enc_compare n x y :
  x < 256 ^ N.of_nat n -> y < 256 ^ N.of_nat n ->
  lex_compare (rev (le_enc n x)) (rev (le_enc n y)) = (x ?= y).
Proof.
  revert x y; induction n as [|n IH]; intros x y Hx Hy.
  - simpl in *. assert (x = 0) by lia. assert (y = 0) by lia. subst. reflexivity.
  - cbn [le_enc rev]. rewrite Nat2N.inj_succ, N.pow_succ_r' in Hx, Hy.
    rewrite lex_compare_snoc_eqlen by now rewrite !rev_length, !le_enc_length.
    rewrite IH by (apply N.div_lt_upper_bound; lia).
    pose proof (N.div_mod x 256). pose proof (N.div_mod y 256).
    pose proof (N.mod_lt x 256). pose proof (N.mod_lt y 256).
    destruct (x / 256 ?= y / 256) eqn:E; simpl.
    + apply N.compare_eq in E.
      destruct (x mod 256 ?= y mod 256) eqn:E2; symmetry.
      * apply N.compare_eq in E2. apply N.compare_eq_iff. lia.
      * rewrite N.compare_lt_iff in *. lia.
      * rewrite N.compare_gt_iff in *. lia.
    + symmetry. rewrite N.compare_lt_iff in *. lia.
    + symmetry. rewrite N.compare_gt_iff in *. lia.
Qed.

Lemma be_enc_compare n x y :
  x < 256 ^ N.of_nat n -> y < 256 ^ N.of_nat n ->
  lex_compare (be_enc n x) (be_enc n y) = (x ?= y).
Proof. apply le_enc_compare. Qed.

Lemma lex_compare_repeat_min (l : bytes) : lex_le (repeat 0 (length l)) l.
Proof.
  unfold lex_le. induction l as [|x l IH]; simpl; [discriminate|].
  destruct x; simpl; auto. discriminate.
Qed.

Lemma lex_compare_repeat_max (l : bytes) : bytes_ok l -> lex_le l (repeat 255 (length l)).
Proof.
  unfold lex_le. induction 1 as [|x l Hx Hl IH]; simpl; [discriminate|].
  unfold byte_ok in Hx. destruct (x ?= 255) eqn:E; auto; try discriminate.
  rewrite N.compare_gt_iff in E. lia.
Qed.
