(* Base.WrapZ: Go fixed-width integers as Z with explicit wrap-around.
   wS b v = the value of v converted to a signed b-bit integer (two's complement),
   wU b v = the value of v converted to an unsigned b-bit integer.
   Used by the generated arithmetic (Gen/Arith.v) and by the geometry models. *)
From Coq Require Import ZArith Lia Bool List.
Import ListNotations.
From Coq Require Import ZifyBool.
Local Open Scope Z_scope.

Definition wU (b : Z) (v : Z) : Z := v mod 2 ^ b.
Definition wS (b : Z) (v : Z) : Z := (v + 2 ^ (b - 1)) mod 2 ^ b - 2 ^ (b - 1).

Definition w32 (v : Z) : Z := wS 32 v.
Definition u32 (v : Z) : Z := wU 32 v.
Definition u64 (v : Z) : Z := wU 64 v.

Definition min32 : Z := - 2 ^ 31.
Definition max32 : Z := 2 ^ 31 - 1.
Definition is32 (v : Z) : Prop := - 2 ^ 31 <= v < 2 ^ 31.
Definition is32b (v : Z) : bool := (- 2 ^ 31 <=? v) && (v <? 2 ^ 31).

(* Go's truncated division; division by zero is a run-time panic, reported by the caller *)
Definition quot32 (a b : Z) : Z := w32 (Z.quot a b).

Lemma is32b_ok v : is32b v = true <-> is32 v.
Proof. unfold is32b, is32. lia. Qed.

Lemma wS32_eq v : wS 32 v = (v + 2147483648) mod 4294967296 - 2147483648.
Proof. reflexivity. Qed.
Lemma wU32_eq v : wU 32 v = v mod 4294967296.
Proof. reflexivity. Qed.
Lemma wU64_eq v : wU 64 v = v mod 18446744073709551616.
Proof. reflexivity. Qed.

Lemma w32_id v : is32 v -> w32 v = v.
Proof.
  unfold is32, w32. rewrite wS32_eq. change (2 ^ 31) with 2147483648. intro H.
  rewrite Z.mod_small; lia.
Qed.

Lemma w32_range v : is32 (w32 v).
Proof.
  unfold is32, w32. rewrite wS32_eq. change (2 ^ 31) with 2147483648.
  pose proof (Z.mod_pos_bound (v + 2147483648) 4294967296). lia.
Qed.

Lemma u32_id v : 0 <= v < 2 ^ 32 -> u32 v = v.
Proof. unfold u32. rewrite wU32_eq. change (2 ^ 32) with 4294967296. intro. apply Z.mod_small; lia. Qed.

Lemma u32_range v : 0 <= u32 v < 2 ^ 32.
Proof. unfold u32. rewrite wU32_eq. change (2 ^ 32) with 4294967296. apply Z.mod_pos_bound. lia. Qed.

Lemma u64_id v : 0 <= v < 2 ^ 64 -> u64 v = v.
Proof. unfold u64. rewrite wU64_eq. change (2 ^ 64) with 18446744073709551616. intro. apply Z.mod_small; lia. Qed.

(* int32 -> uint32 -> int32 is the identity (binary.Write / binary.Read of an int32) *)
Lemma w32_u32 v : is32 v -> w32 (u32 v) = v.
Proof.
  unfold is32, w32, u32. rewrite wS32_eq, wU32_eq. change (2 ^ 31) with 2147483648. intro H.
  destruct (Z_lt_le_dec v 0).
  - replace (v mod 4294967296) with (v + 4294967296).
    + replace (v + 4294967296 + 2147483648) with (v + 2147483648 + 1 * 4294967296) by lia.
      rewrite Z.mod_add by lia. rewrite Z.mod_small; lia.
    + symmetry. replace v with (v + 4294967296 + (-1) * 4294967296) at 1 by lia.
      rewrite Z.mod_add by lia. apply Z.mod_small; lia.
  - rewrite (Z.mod_small v) by lia. rewrite Z.mod_small; lia.
Qed.

(* ---- byte buffers of the generated code (Gen/Arith.v): bytes are Z in [0,256) ---- *)
Definition bmake (n : Z) : list Z := repeat 0 (Z.to_nat n).
Definition be32_bytes (v : Z) : list Z :=
  [v / 16777216 mod 256; v / 65536 mod 256; v / 256 mod 256; v mod 256].
Definition slice_ok (buf : list Z) (lo hi : Z) : bool :=
  (0 <=? lo) && (lo <=? hi) && (hi <=? Z.of_nat (length buf)) && (4 <=? hi - lo).
(* binary.BigEndian.PutUint32(buf[lo:hi], v): a Go panic (None) unless 0 <= lo <= hi <= len buf
   and the slice holds 4 bytes *)
Definition bput_be32 (buf : list Z) (lo hi v : Z) : option (list Z) :=
  if slice_ok buf lo hi
  then Some (firstn (Z.to_nat lo) buf ++ be32_bytes v ++ skipn (Z.to_nat lo + 4) buf)
  else None.
(* binary.BigEndian.Uint32(buf[lo:hi]) *)
Definition bget_be32 (buf : list Z) (lo hi : Z) : option Z :=
  if slice_ok buf lo hi
  then match skipn (Z.to_nat lo) buf with
       | a :: b :: c :: d :: _ => Some (((a * 256 + b) * 256 + c) * 256 + d)
       | _ => None
       end
  else None.
