(* Base.GateTypes: vocabulary shared by the generated route tables (Gen/Routes.v) and the
   request-gate model (Model/Gate.v).  Definitions only. *)
From Coq Require Import String.

(* one conjunct of a refusal condition in server/web.go, as written in the source *)
Inductive gatom :=
| ANotAdmin              (* !adminPriv *)
| AReadonly              (* readonly *)
| ANotFullwrite          (* !fullwrite *)
| ALocked                (* locked *)
| ANotBranch             (* !branchRequest *)
| AMethodNe (m : string) (* method != "m"   (method = strings.ToLower(r.Method)) *)
| AIsMutation            (* data.IsMutationRequest(r.Method, c.URLParams["keyword"]) *)
| AVersioned             (* the test sits inside `if data.Versioned() {` *)
| AUnknown (why : string). (* the translator did not understand the condition: evaluated as "does not refuse" *)
