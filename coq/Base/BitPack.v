(* Base.BitPack: k-bit big-endian fields in a byte list (k <= 9), as
   datatype/common/labels/compressed.go does it: getPackedValue (and its inline copies in
   calcNumLabels, getNumVoxels, GetPointLabels, splitFast) for reading, the
   `svalues[bytepos] |= ...` code of encodeBlock / downresSubBlock for writing.
   The Go table leftBitMask is taken from Gen.Consts (regenerated from the source).

   This file holds the definitions only (models keep building when a sweep fails); the finite
   sweeps (vm_compute) are in Proofs/BitPackSweep.v, the structural lemmas built on them in
   Proofs/BitPack.v. *)
From DV Require Import Base.Prelude Gen.Consts.
Local Open Scope N_scope.

Definition nth_N {A} (l : list A) (i : N) : option A := nth_error l (N.to_nat i).

(* [0; 1; ...; n-1] (counting in binary: N.of_nat of each element would cost time linear in it) *)
Fixpoint nseq_from (n : nat) (start : N) : list N :=
  match n with
  | O => []
  | S n' => start :: nseq_from n' (N.succ start)
  end.
Definition nseq (n : N) : list N := nseq_from (N.to_nat n) 0.

(* bitsFor: number of bits needed for an index into n values (0 and 1 give 0) *)
Definition bits_for (n : N) : N := if n <? 2 then 0 else N.size (n - 1).

(* ---- reading ---- *)

(* index totally within one byte *)
Definition get1 (m b0 h k : N) : N := N.shiftr (N.land b0 m) (8 - h - k).
(* index spans a byte boundary (uint16 arithmetic; (b0&m)<<8 | b1 fits in 16 bits) *)
Definition get2 (m b0 b1 h k : N) : N :=
  N.shiftr (N.lor (N.shiftl (N.land b0 m) 8) b1) (16 - h - k).

(* getPackedValue(b, bitHead, bits).  Index out of range = Go panic. *)
Definition get_packed (b : bytes) (bitHead bits : N) : res N :=
  let bytePos := bitHead / 8 in
  let bitPos := bitHead mod 8 in
  match nth_N b bytePos, nth_N t_leftBitMask bitPos with
  | Some b0, Some m =>
    if bitPos + bits <=? 8 then Ok (get1 m b0 bitPos bits)
    else match nth_N b (bytePos + 1) with
         | Some b1 =>
           (* uint(16 - bitPos - bits) wraps to a huge shift count when bits > 16 - bitPos *)
           if 16 <? bitPos + bits then Ok 0 else Ok (get2 m b0 b1 bitPos bits)
         | None => Panic
         end
  | _, _ => Panic
  end.

(* ---- writing ----
   The Go encoders OR successive fields into a zero-initialised scratch slice at a
   monotonically increasing bit position.  That is rendered as an output stream:
   the bytes already complete (reversed), the byte being filled and the bit head in it. *)
Record wst := { w_done : bytes; w_cur : N; w_head : N }.

Definition w_init : wst := {| w_done := []; w_cur := 0; w_head := 0 |}.

Definition put (k v : N) (s : wst) : wst :=
  let h := w_head s in
  if h + k <=? 8 then
    (* svalues[bytepos] |= byte(index << leftshift) *)
    let c := N.lor (w_cur s) (N.shiftl v (8 - k - h) mod 256) in
    if h + k =? 8 then {| w_done := c :: w_done s; w_cur := 0; w_head := 0 |}
    else {| w_done := w_done s; w_cur := c; w_head := h + k |}
  else
    (* index <<= leftshift (uint16); svalues[bytepos] |= hi; svalues[bytepos+1] = lo *)
    let w := N.shiftl v (16 - k - h) mod 65536 in
    let c := N.lor (w_cur s) (N.shiftr (N.land w 65280) 8) in
    let c1 := N.land w 255 in
    if h + k =? 16 then {| w_done := c1 :: c :: w_done s; w_cur := 0; w_head := 0 |}
    else {| w_done := c :: w_done s; w_cur := c1; w_head := h + k - 8 |}.

(* `if bitpos%8 != 0 { bitpos += 8 - bitpos%8 }` then svalues[:bitpos>>3] *)
Definition w_finish (s : wst) : bytes :=
  rev (if w_head s =? 0 then w_done s else w_cur s :: w_done s).

Definition pack (k : N) (idxs : list N) : bytes :=
  w_finish (fold_left (fun s v => put k v s) idxs w_init).

(* ---- bit-level reading of the same data (specification side) ---- *)

(* k bits of v, most significant first *)
Fixpoint to_bits (k : nat) (v : N) : list bool :=
  match k with
  | O => []
  | S k' => N.testbit v (N.of_nat k') :: to_bits k' v
  end.
Definition byte_bits (b : N) : list bool := to_bits 8 b.
Definition bits_val (l : list bool) : N :=
  fold_left (fun a (b : bool) => 2 * a + (if b then 1 else 0)) l 0.
Definition bytes_bits (l : bytes) : list bool := flat_map byte_bits l.

Definition wst_bits (s : wst) : list bool :=
  bytes_bits (rev (w_done s)) ++ firstn (N.to_nat (w_head s)) (byte_bits (w_cur s)).
Definition wst_inv (s : wst) : Prop :=
  w_head s < 8 /\ w_cur s < 256 /\ w_cur s mod 2 ^ (8 - w_head s) = 0 /\ bytes_ok (w_done s).
Definition wst_invb (s : wst) : bool :=
  (w_head s <? 8) && (w_cur s <? 256) && (w_cur s mod 2 ^ (8 - w_head s) =? 0) && bytes_okb (w_done s).

(* ---- the sweeps ---- *)

Definition bools_eqb : list bool -> list bool -> bool := list_eqb Bool.eqb.

(* reading inside one byte: every k in 1..8, head h with h+k <= 8, byte b0 *)
Definition get1_ok (k h b0 : N) : bool :=
  negb (h + k <=? 8) ||
  match nth_N t_leftBitMask h with
  | Some m => get1 m b0 h k =? bits_val (firstn (N.to_nat k) (skipn (N.to_nat h) (byte_bits b0)))
  | None => false
  end.

(* reading across a byte boundary: every k in 1..9, head h with 8 < h+k, bytes b0 b1 *)
Definition get2_ok (k h b0 b1 : N) : bool :=
  (h + k <=? 8) ||
  match nth_N t_leftBitMask h with
  | Some m => get2 m b0 b1 h k =?
              bits_val (firstn (N.to_nat k) (skipn (N.to_nat h) (byte_bits b0 ++ byte_bits b1)))
  | None => false
  end.

(* writing: every k in 1..9, head h, partial byte c << (8-h) with c < 2^h, value v < 2^k *)
Definition put_ok (k h c v : N) : bool :=
  let cur := N.shiftl c (8 - h) in
  let s' := put k v {| w_done := []; w_cur := cur; w_head := h |} in
  bools_eqb (wst_bits s') (firstn (N.to_nat h) (byte_bits cur) ++ to_bits (N.to_nat k) v)
  && wst_invb s'.

Definition heads : list N := nseq 8.
Definition byte_vals : list N := nseq 256.

Definition sweep_get1 : bool :=
  forallb (fun k => forallb (fun h => forallb (fun b0 => get1_ok k h b0) byte_vals) heads)
          [1;2;3;4;5;6;7;8].
Definition sweep_get2 (k : N) : bool :=
  forallb (fun h => forallb (fun b0 => forallb (fun b1 => get2_ok k h b0 b1) byte_vals) byte_vals) heads.
Definition sweep_put (k : N) : bool :=
  forallb (fun h => forallb (fun c => forallb (fun v => put_ok k h c v) (nseq (2 ^ k))) (nseq (2 ^ h))) heads.

