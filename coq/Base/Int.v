(* Base.Int: little/big endian fixed-width integers over byte lists. *)
From DV Require Import Base.Prelude.
From Coq Require Import ZifyN ZifyNat ZifyBool.
Ltac Zify.zify_post_hook ::= Z.div_mod_to_equations.
Local Open Scope N_scope.

(* n bytes, little endian *)
Fixpoint le_enc (n : nat) (x : N) : bytes :=
  match n with
  | O => []
  | S n' => (x mod 256) :: le_enc n' (x / 256)
  end.

Fixpoint le_dec (l : bytes) : N :=
  match l with
  | [] => 0
  | b :: r => b + 256 * le_dec r
  end.

Definition be_enc (n : nat) (x : N) : bytes := rev (le_enc n x).
Definition be_dec (l : bytes) : N := le_dec (rev l).

Lemma le_enc_length n x : length (le_enc n x) = n.
Proof. revert x; induction n as [|n IH]; intro x; simpl; [reflexivity | now rewrite IH]. Qed.

Lemma le_enc_ok n x : bytes_ok (le_enc n x).
Proof.
  revert x; induction n as [|n IH]; intro x; simpl; constructor.
  - unfold byte_ok. apply N.mod_lt. discriminate.
  - apply IH.
Qed.

Lemma le_dec_enc n x : x < 256 ^ (N.of_nat n) -> le_dec (le_enc n x) = x.
Proof.
  revert x; induction n as [|n IH]; intros x Hx.
  - simpl in *. lia.
  - cbn [le_enc le_dec]. rewrite IH.
    + pose proof (N.div_mod x 256). lia.
    + rewrite Nat2N.inj_succ, N.pow_succ_r' in Hx.
      apply N.div_lt_upper_bound; lia.
Qed.

Lemma le_dec_bound l : bytes_ok l -> le_dec l < 256 ^ N.of_nat (length l).
Proof.
  induction 1 as [|b l Hb Hl IH].
  - simpl. lia.
  - cbn [le_dec length]. rewrite Nat2N.inj_succ, N.pow_succ_r'. unfold byte_ok in Hb. lia.
Qed.

Lemma le_enc_dec l : bytes_ok l -> le_enc (length l) (le_dec l) = l.
Proof.
  induction 1 as [|b l Hb Hl IH]; [reflexivity|].
  cbn [le_dec length le_enc]. unfold byte_ok in Hb.
  replace ((b + 256 * le_dec l) mod 256) with b by lia.
  replace ((b + 256 * le_dec l) / 256) with (le_dec l) by lia.
  now rewrite IH.
Qed.

Lemma be_enc_length n x : length (be_enc n x) = n.
Proof. unfold be_enc. now rewrite rev_length, le_enc_length. Qed.

Lemma be_dec_enc n x : x < 256 ^ (N.of_nat n) -> be_dec (be_enc n x) = x.
Proof. intro H. unfold be_dec, be_enc. rewrite rev_involutive. now apply le_dec_enc. Qed.

Lemma be_enc_ok n x : bytes_ok (be_enc n x).
Proof. unfold be_enc, bytes_ok. apply Forall_rev. apply le_enc_ok. Qed.

Lemma le_enc_inj n x y :
  x < 256 ^ N.of_nat n -> y < 256 ^ N.of_nat n -> le_enc n x = le_enc n y -> x = y.
Proof. intros Hx Hy E. rewrite <- (le_dec_enc n x Hx), <- (le_dec_enc n y Hy). now rewrite E. Qed.

Lemma be_enc_inj n x y :
  x < 256 ^ N.of_nat n -> y < 256 ^ N.of_nat n -> be_enc n x = be_enc n y -> x = y.
Proof.
  intros Hx Hy E. unfold be_enc in E. apply (f_equal (@rev N)) in E.
  rewrite !rev_involutive in E. eapply le_enc_inj; eauto.
Qed.
