(* Base.KeyShape: the vocabulary of Gen/KeyClasses.v (the generated table of every datatype's
   TKey constructors).  A TKey made by storage.NewTKey is  class byte :: standard byte :: body;
   the body is either of a fixed length or a string followed by a terminator byte. *)
From Coq Require Import NArith List.

Inductive kshape :=
| KFixed (n : N)      (* body has exactly n bytes *)
| KTerm (t : N).      (* body = s ++ [t] for a caller-supplied byte string s *)

Record kclass := { kc_class : N; kc_shape : kshape }.
