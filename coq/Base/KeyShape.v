(* Base.KeyShape: the vocabulary of Gen/KeyClasses.v (the generated table of every datatype's
   TKey constructors).  A TKey made by storage.NewTKey is  class byte :: standard byte :: body;
   the body is either of a fixed length or a string followed by a terminator byte. *)
From Coq Require Import NArith List.

Inductive kshape :=
| KFixed (n : N)      (* body has exactly n bytes *)
| KTerm (t : N)       (* body = s ++ [t] for a caller-supplied byte string s *)
| KRaw (n : N)        (* body = the caller's byte string, unchecked (NewTKeyByCoord(izyx), labelvol.NewTKey);
                         the typed constructors (NewTKey(idx)) hand in exactly n bytes *)
| KDecSep (sep : N) (ext : list N)
                      (* body = decimal digits of a uint64 ++ [sep] ++ ext  (tarsupervoxels: "<supervoxel>.<ext>",
                         ext being the instance's fixed Extension) *)
| KLegacy (n : N).    (* no storage.NewTKey header: the TKey is n bytes laid out by the constructor itself and
                         the class byte is the first of them (imagetile: DataShape bytes start with dims = 3) *)

Record kclass := { kc_class : N; kc_shape : kshape }.
