(* Base.GoInt: fixed-width Go integer arithmetic over Z, used by the generated Gen/Funcs.v. *)
From Coq Require Import ZArith Lia.
Local Open Scope Z_scope.

(* value of an unsigned / signed (two's complement) machine integer of the given width *)
Definition wrapU (bits : Z) (x : Z) : Z := x mod 2 ^ bits.
Definition wrapS (bits : Z) (x : Z) : Z := (x + 2 ^ (bits - 1)) mod 2 ^ bits - 2 ^ (bits - 1).

Lemma wrapU_range bits x : 0 < bits -> 0 <= wrapU bits x < 2 ^ bits.
Proof. intro H. unfold wrapU. apply Z.mod_pos_bound. apply Z.pow_pos_nonneg; lia. Qed.

Lemma wrapU_small bits x : 0 <= x < 2 ^ bits -> wrapU bits x = x.
Proof. intro H. unfold wrapU. apply Z.mod_small. exact H. Qed.

Lemma wrapS_small bits x : 0 < bits -> - 2 ^ (bits - 1) <= x < 2 ^ (bits - 1) -> wrapS bits x = x.
Proof.
  intros Hb H. unfold wrapS.
  assert (E : 2 ^ bits = 2 * 2 ^ (bits - 1)).
  { replace bits with (Z.succ (bits - 1)) at 1 by lia. rewrite Z.pow_succ_r by lia. reflexivity. }
  rewrite Z.mod_small by lia. lia.
Qed.
