(* Base.Prelude: result type and small list utilities shared by every model.
   No proofs about DVID here. *)
From Coq Require Export List NArith ZArith Bool Lia.
Export ListNotations.

(* Outcome of a modelled Go function: a value, a returned error, or a panic.
   A Go panic is never defaulted to a value. *)
Inductive res (A : Type) : Type :=
| Ok (a : A)
| Err
| Panic.
Arguments Ok {A} a.
Arguments Err {A}.
Arguments Panic {A}.

Lemma Ok_inj {A} (a b : A) : Ok a = Ok b -> a = b.
Proof. intro H. inversion H. reflexivity. Qed.

Definition res_bind {A B} (r : res A) (f : A -> res B) : res B :=
  match r with Ok a => f a | Err => Err | Panic => Panic end.

Definition is_panic {A} (r : res A) : bool :=
  match r with Panic => true | _ => false end.
Definition is_ok {A} (r : res A) : bool :=
  match r with Ok _ => true | _ => false end.
Definition is_err {A} (r : res A) : bool :=
  match r with Err => true | _ => false end.

(* observation classes used when an implementation result is compared *)
Inductive oclass := OOk | OErr | OPanic.
Definition oclass_eqb (a b : oclass) : bool :=
  match a, b with OOk, OOk | OErr, OErr | OPanic, OPanic => true | _, _ => false end.
Definition class_of {A} (r : res A) : oclass :=
  match r with Ok _ => OOk | Err => OErr | Panic => OPanic end.

Fixpoint list_eqb {A} (eqb : A -> A -> bool) (a b : list A) : bool :=
  match a, b with
  | [], [] => true
  | x :: a', y :: b' => eqb x y && list_eqb eqb a' b'
  | _, _ => false
  end.

Lemma list_eqb_eq {A} (eqb : A -> A -> bool)
      (H : forall x y, eqb x y = true <-> x = y) :
  forall a b, list_eqb eqb a b = true <-> a = b.
Proof.
  induction a as [|x a IH]; destruct b as [|y b]; simpl; split; intro E;
    try reflexivity; try discriminate.
  - apply andb_true_iff in E as [E1 E2]. apply H in E1. apply IH in E2. congruence.
  - inversion E; subst. apply andb_true_iff; split; [apply H; reflexivity | apply IH; reflexivity].
Qed.

Definition bytes := list N.
Definition bytes_eqb : bytes -> bytes -> bool := list_eqb N.eqb.
Lemma bytes_eqb_eq a b : bytes_eqb a b = true <-> a = b.
Proof. apply list_eqb_eq. intros; apply N.eqb_eq. Qed.

Definition byte_ok (b : N) : Prop := (b < 256)%N.
Definition bytes_ok (l : bytes) : Prop := Forall byte_ok l.
Definition bytes_okb (l : bytes) : bool := forallb (fun b => N.ltb b 256) l.

Lemma bytes_okb_ok l : bytes_okb l = true <-> bytes_ok l.
Proof.
  unfold bytes_okb, bytes_ok, byte_ok. rewrite forallb_forall, Forall_forall.
  split; intros H x Hx; specialize (H x Hx); [apply N.ltb_lt|apply N.ltb_lt]; exact H.
Qed.

(* indices of the elements of a list satisfying a test: used by Run/cases files *)
Fixpoint find_idx_from {A} (f : A -> bool) (i : nat) (l : list A) : list nat :=
  match l with
  | [] => []
  | x :: r => if f x then i :: find_idx_from f (S i) r else find_idx_from f (S i) r
  end.
Definition find_idx {A} (f : A -> bool) (l : list A) : list nat := find_idx_from f 0 l.

(* byte strings written as hexadecimal text in generated case files (fast to parse) *)
From Coq Require Import String Ascii.
Definition hexval (c : ascii) : N :=
  let n := N_of_ascii c in
  if (n <? 58)%N then (n - 48)%N else if (n <? 71)%N then (n - 55)%N else (n - 87)%N.
Fixpoint hx (s : string) : bytes :=
  match s with
  | String a (String b r) => (16 * hexval a + hexval b)%N :: hx r
  | _ => []
  end.
