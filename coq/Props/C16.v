(* C16 — Neuron annotations: the in-memory head equals the store; updates merge fields.
   Only statements, each closed by [exact] of a lemma proved in Proofs/, and Print Assumptions.
   [repaired] is the model of datatype/neuronjson with repo_patches/C16-{1..9}-fix.diff applied,
   [interim] with only the first six, [shipped] with none (Model/NJ.v, record [variant]). *)
From Coq Require Import Permutation.
From DV Require Import Base.Prelude Model.NJ Model.NJOrd Proofs.NJBase Proofs.NJ Proofs.NJUpdate Proofs.NJOrd.
(* POST query is read-only (C16_query_is_readonly, C16_queries_erasable): its own file, cited by C02 *)
From DV Require Export Props.C16_readonly.
Local Open Scope N_scope.

(* For EVERY history of POST key / POST keyvalues (plain, replace, conditional fields; accepted or
   rejected, also by the JSON schema in force), DELETE key, schema POST/DELETE, commit, newversion
   and restart, and for every read request (GET key, keys, all, fields, fields?counts=true,
   fieldtimes, keyrange, keyrangevalues and keyvalues in their JSON / tar / protobuf forms, query in
   every form, schema metadata, HEAD key, HEAD schema, and which JSON schema validates POSTs) with
   any show= / fields= options and any regular-expression engine [rx]: the in-memory path and the
   store path give the same answer on the head, and so does the in-memory path after the memdb
   has been rebuilt from the store (restart). *)
Theorem C16_mem_eq_store : forall (rx : bytes -> option (bytes -> bool)) (h : list op) (s : state),
  run repaired init_state h = Ok s ->
  forall r : rreq,
    rres_equiv (read_mem rx repaired s r) (read_store rx repaired (st_head s) r)
    /\ st_head (reload repaired s) = st_head s
    /\ rres_equiv (read_mem rx repaired (reload repaired s) r) (read_store rx repaired (st_head s) r).
Proof. exact mem_eq_store. Qed.
Print Assumptions C16_mem_eq_store.

(* The same for EVERY version of the repository, with a second branch and the store's "inmemory"
   configuration in the histories (POST branch, requests on the branch head, changes of the
   configuration, restarts): whichever db getMemDBbyVersion picks for a version (the HEAD db of
   master or of the branch, a read-only UUID db, or none) the answer is the one its store gives. *)
Theorem C16_refs_eq_store : forall (rx : bytes -> option (bytes -> bool)) (h : list op) (s : state),
  run repaired init_state h = Ok s ->
  forall (ref : vref) (v : vstore) (r : rreq), resolve s ref = Some v ->
    exists x, read_ref rx repaired s ref r = Some x /\ rres_equiv x (read_store rx repaired v r).
Proof. exact refs_eq_store. Qed.
Print Assumptions C16_refs_eq_store.

(* What the driver observes: after commit + newversion the committed parent (version 1, served by
   the store path) and the new head (version 0, served from memory) answer alike, and the parent
   answers what the store of the old head answered. *)
Theorem C16_parent_child_agree : forall (rx : bytes -> option (bytes -> bool)) (h : list op) (s s2 : state),
  run repaired init_state h = Ok s -> st_locked s = false ->
  run repaired s [OpCommit; OpNewVersion] = Ok s2 ->
  forall r : rreq, exists p c,
    read_version rx repaired s2 1 r = Some p /\ read_version rx repaired s2 0 r = Some c /\
    rres_equiv c p /\ p = read_store rx repaired (st_head s) r.
Proof. exact parent_child_agree. Qed.
Print Assumptions C16_parent_child_agree.

(* A partial update (replace=false) keeps every stored field it does not mention, unless the field
   is the _user/_time stamp of a field it does mention. *)
Theorem C16_merge_keeps : forall user conds t (o new0 : obj) f v,
  NoDup (dom o) -> oget f o = Some v -> omem f new0 = false ->
  (forall g, In g (dom new0) -> f <> fuser g /\ f <> ftime g) ->
  oget f (snd (updateJSON user conds false t (Some o) new0)) = Some v.
Proof. exact merge_keeps. Qed.
Print Assumptions C16_merge_keeps.

(* A null removes an ordinary (non _user/_time) field, whatever was stored, with or without
   replace, whatever the conditionals. *)
Theorem C16_null_removes : forall user conds replace t (orig : option obj) (new0 : obj) f,
  In (f, JNull) new0 -> is_meta f = false ->
  oget f (snd (updateJSON user conds replace t orig new0)) = None.
Proof. exact null_removes. Qed.
Print Assumptions C16_null_removes.

(* A conditional field (conditionals=f, no replace) that the stored annotation already sets keeps the
   stored value whatever non-null value the request gives it. *)
Theorem C16_conditional_keeps : forall user conds t (o new0 : obj) f v ov,
  NoDup (dom o) -> NoDup (dom new0) ->
  oget f o = Some ov -> oget f new0 = Some v -> is_null v = false -> is_meta f = false ->
  smem f conds = true ->
  oget f (snd (updateJSON user conds false t (Some o) new0)) = Some ov.
Proof. exact conditional_keeps. Qed.
Print Assumptions C16_conditional_keeps.

(* A field's stamps change exactly when its value does: for an ordinary field f that the request
   sets to a non-null v without setting f_user / f_time by hand and without protecting f as a
   conditional: if v differs from the stored value (or f is new) the stamps become (user, now);
   if v equals the stored value they stay what they were. *)
Theorem C16_stamps_change_iff_value_changes : forall user conds replace t (o new0 : obj) f v,
  NoDup (dom o) -> NoDup (dom new0) ->
  oget f new0 = Some v -> is_null v = false ->
  is_meta f = false -> f <> s_bodyid -> f <> s_userf ->
  omem (fuser f) new0 = false -> omem (ftime f) new0 = false ->
  (replace = true \/ smem f conds = false) ->
  nonempty user = true ->
  let new' := snd (updateJSON user conds replace t (Some o) new0) in
  if changed o f v
  then oget (fuser f) new' = Some (JStr user) /\ oget (ftime f) new' = Some (JStr t)
  else if replace
       then (forall u, oget (fuser f) o = Some u -> oget (fuser f) new' = Some u)
            /\ (forall u, oget (ftime f) o = Some u -> oget (ftime f) new' = Some u)
       else oget (fuser f) new' = oget (fuser f) o /\ oget (ftime f) new' = oget (ftime f) o.
Proof. exact stamps_rule. Qed.
Print Assumptions C16_stamps_change_iff_value_changes.

(* Go map iteration order is immaterial in updateJSON.  [updateJSON_ord sg] (Model/NJOrd.v) ranges
   every map of updateJSON in the order [sg] dictates, loop by loop: the null loop visits the keys
   of newData in ANY sequence that contains them all — it may also visit the <field>_user /
   <field>_time entries the loop itself creates, any number of times, and each visit reads the
   entry as it is at that moment (read while written); the loops that build newlySet / newFields,
   carry the stored fields forward, add the stamps and keep the stamps (replace) visit ANY
   permutation of their map.  For EVERY such order, every way of writing the posted fields and the
   stored annotation down as association lists (Permutation, distinct keys), every user,
   conditionals, replace flag and time: the resulting annotation — and the stored annotation after
   its in-place deletions — is, as a finite map field -> value (stamps included), the one
   Model.NJ.updateJSON computes in list order.  (Model.NJ.updateJSON is the instance [ord_id].) *)
Theorem C16_update_order_irrelevant :
  forall (user : bytes) (conds : list bytes) (replace : bool) (t : bytes)
         (sg : orders) (orig orig' : option obj) (new0 new0' : obj),
  fair sg -> same_map new0 new0' -> same_map_opt orig orig' ->
  oeq (snd (updateJSON_ord user conds replace t sg orig' new0')) (snd (updateJSON user conds replace t orig new0))
  /\ oeq_opt (fst (updateJSON_ord user conds replace t sg orig' new0')) (fst (updateJSON user conds replace t orig new0)).
Proof. exact updateJSON_order_irrelevant. Qed.
Print Assumptions C16_update_order_irrelevant.

(* in the words of the property: for every permutation of the posted fields, under any two fair
   orders, every field reads the same in the two results *)
Theorem C16_update_permutation_invariant :
  forall (user : bytes) (conds : list bytes) (replace : bool) (t : bytes)
         (sg sg' : orders) (orig : option obj) (l l' : obj) (f : bytes),
  fair sg -> fair sg' -> NoDup (dom l) -> Permutation l l' -> same_map_opt orig orig ->
  oget f (snd (updateJSON_ord user conds replace t sg orig l)) = oget f (snd (updateJSON_ord user conds replace t sg' orig l')).
Proof. exact update_permutation_invariant. Qed.
Print Assumptions C16_update_permutation_invariant.

(* non-vacuity: the four orders the driver's cases are evaluated under are fair; a request and a
   stored annotation written in reverse and ranged with revisits give another association list,
   which is the same map (a null with an explicit stamp: c_user = "z" survives) *)
Example C16_orders_inhabited :
  fair ord_id /\ fair ord_rev /\ fair ord_rot /\ fair ord_revisit
  /\ same_map ex_new (rev ex_new) /\ same_map_opt (Some ex_o) (Some (rev ex_o))
  /\ snd (updateJSON_ord [117;50] [[]] false [49] ord_revisit (Some (rev ex_o)) (rev ex_new))
     <> snd (updateJSON [117;50] [[]] false [49] (Some ex_o) ex_new)
  /\ oget (fuser [99]) (snd (updateJSON [117;50] [[]] false [49] (Some ex_o) ex_new)) = Some (JStr [122]).
Proof. exact order_example. Qed.

(* "the value changed" is decided by json_eqb, which is equality of JSON values *)
Theorem C16_value_equality : forall a b : json, json_eqb a b = true <-> a = b.
Proof. exact json_eqb_eq. Qed.
Print Assumptions C16_value_equality.

(* ---- the code as shipped violates mem_eq_store: one witness history per defect ---- *)

(* (a) deleteBodyID searches with ==: ids 10..80, DELETE 10, 30, 80, 50 (and POST 10, POST 20,
   DELETE 10): keys / keyrange from memory still list deleted ids *)
Theorem C16_shipped_delete_refuted :
  both shipped h_delete8 RKeys = Some (XIds [10; 20; 30; 40; 50; 60; 70], XIds [20; 40; 60; 70])
  /\ both shipped h_delete2 RKeys = Some (XIds [10; 20], XIds [20])
  /\ both shipped h_delete2 (RKeyRange [49] [57; 57]) = Some (XIds [10; 20], XIds [20]).
Proof. exact shipped_delete_refuted. Qed.

(* (b) POST {"a":1}, POST {"a":null}: fields?counts=true reports a:1 from memory, no "a" from the store *)
Theorem C16_shipped_counter_refuted :
  option_map (fun p => (cnt_of fa (fst p), cnt_of fa (snd p))) (both shipped h_null RFieldCounts) = Some (Some 1%Z, None)
  /\ option_map (fun p => (cnt_of fa (fst p), cnt_of fa (snd p))) (both (mkVar true false true true true true true true true) h_null RFieldCounts) = Some (Some 1%Z, None).
Proof. exact shipped_counter_refuted. Qed.

(* (e) counters that dropped to zero are reported from memory; fields lists "" for them *)
Theorem C16_zero_counter_refuted :
  let V := mkVar true true false true true true true true true in
  option_map (fun p => (cnt_of fa (fst p), cnt_of fa (snd p))) (both V h_zero RFieldCounts) = Some (Some 0%Z, None)
  /\ exists l l', both V h_zero RFields = Some (XNames l, XNames l') /\ In [] l /\ ~ In [] l'.
Proof. exact zero_counter_refuted. Qed.

(* (d) the store path ignores fields= in query and strips requested stamps in keyrangevalues *)
Theorem C16_store_select_refuted :
  let V := mkVar true true true false true true true true true in
  both V h_two (RQuery [[(fa, JNum 1)]] false [fb] (mkShow false false))
    = Some (XObjs [[(s_bodyid, JNum 10); (fb, JNum 2)]],
            XObjs [[(s_bodyid, JNum 10); (fb, JNum 2); (fa, JNum 1)]])
  /\ both V h_two (RKeyRangeValues [48] [97] [fuser fa] (mkShow false false) 0)
    = Some (XKVs [(10, [(s_bodyid, JNum 10); (fuser fa, JStr u1)])], XKVs [(10, [(s_bodyid, JNum 10)])]).
Proof. exact store_select_refuted. Qed.

(* (c) ids 5, 10, 100: keyrange/1/15 and keyrangevalues/1/15 select by string order on the store path *)
Theorem C16_store_range_refuted :
  let V := mkVar true true true true false true true true true in
  option_map (fun p => (kv_ids (fst p), kv_ids (snd p))) (both V h_digits (RKeyRange [49] [49; 53])) = Some ([5; 10], [10])
  /\ option_map (fun p => (kv_ids (fst p), kv_ids (snd p)))
       (both V h_digits (RKeyRangeValues [49] [49; 53] [] (mkShow false false) 0)) = Some ([5; 10], [10; 100]).
Proof. exact store_range_refuted. Qed.

(* (i) POST json_schema, commit, restart, newversion: the child's GET json_schema is 404 from memory *)
Theorem C16_meta_reload_refuted :
  both (mkVar true true true true true false true true true) h_schema (RMeta 0) = Some (XBytes None, XBytes (Some [123; 125])).
Proof. exact meta_reload_refuted. Qed.

(* (f) fieldtimes on the code with the first six repairs: the head reports the stamp of the last
   POSTed body (2020), the restarted head the newest (2022), committed versions answer 400 *)
Theorem C16_fieldtimes_refuted :
  match run interim init_state h_ftimes with
  | Ok s => (time_of fa (read_mem no_rx interim s RFieldTimes),
             time_of fa (read_mem no_rx interim (reload interim s) RFieldTimes),
             read_store no_rx interim (st_head s) RFieldTimes)
  | _ => (None, None, XPanic)
  end = (Some y2020, Some y2022, XErr).
Proof. exact fieldtimes_refuted. Qed.

(* (h) POST json_schema, DELETE json_schema: the head still validates against the deleted schema *)
Theorem C16_schema_delete_refuted :
  both interim h_schdel RSchemaInForce = Some (XBytes (Some [123; 125]), XBytes None).
Proof. exact schema_delete_refuted. Qed.

(* (m), (n) initMemoryDB before repair 9: a configured branch that does not exist yet gets an empty
   db that later serves the branch head; a configured open version diverts the updates from the
   HEAD db of master.  With the repair both versions answer like their stores. *)
Theorem C16_init_registration_refuted :
  ref_both interim h_bcfg (VB 0) RKeys = Some (Some (XIds []), Some (XIds [10]))
  /\ ref_both interim h_static_open (VM 1) RKeys = Some (Some (XIds [10]), Some (XIds [10; 20]))
  /\ ref_both repaired h_bcfg (VB 0) RKeys = Some (Some (XIds [10]), Some (XIds [10]))
  /\ ref_both repaired h_static_open (VM 1) RKeys = Some (Some (XIds [10; 20]), Some (XIds [10; 20])).
Proof. exact init_registration_refuted. Qed.

(* Non-vacuity: a history with every kind of request runs to completion (so the hypothesis of
   C16_mem_eq_store is inhabited by a non-trivial state), and a concrete merge. *)
Example C16_history_inhabited :
  exists s, run repaired init_state h_sample = Ok s /\ map fst (m_data (st_mem s)) = [5; 10] /\ length (st_parents s) = 1%nat
            /\ option_map (fun m => map fst (m_data m)) (st_bmem s) = Some [5; 9; 100] /\ map fst (st_static s) = [VM 0].
Proof. exact sample_runs. Qed.
Example C16_merge_concrete :
  let o := [(s_bodyid, JNum 7); (fa, JNum 1); (fuser fa, JStr u1); (ftime fa, JStr [48]); (fb, JStr [120])] in
  snd (updateJSON u2 [[]] false t0 (Some o) [(s_bodyid, JNum 7); (fa, JNum 1); (fb, JNull)])
  = [(s_bodyid, JNum 7); (fa, JNum 1); (fuser fb, JStr u2); (ftime fb, JStr t0); (fuser fa, JStr u1); (ftime fa, JStr [48])].
Proof. vm_compute. reflexivity. Qed.
