(* C16_readonly — requests that coq/Model/Gate.v lists as audited read-only (C02_overrides_audited):
   (neuronjson, query, post).  Only statements, each closed by [exact] of a lemma of Proofs/NJQuery.v.
   (roi, ptquery, post) has no theorem here: Model/ROI.v is a model of the pure functions of
   datatype/roi (point_query …), it has no instance state and no request step. *)
From DV Require Import Base.Prelude Model.NJ Model.NJQuery Proofs.NJQuery.
Local Open Scope N_scope.

(* POST query on ANY version, with ANY body (unparsable, empty list, any list of query objects with
   any values), any onlyid / fields= / show= options, any regular-expression engine, in ANY state —
   reachable or not, any variant of the code: the state after the request is the state before it:
   stores of every version of both branches, HEAD dbs (annotations, sorted ids, field counters,
   fieldTimes), UUID dbs, metadata cache, compiled schema, lock bits, configuration. *)
Theorem C16_query_is_readonly : forall (rx : bytes -> option (bytes -> bool)) (V : variant) (s : state) (q : qreq),
  fst (post_query rx V s q) = s.
Proof. exact post_query_state. Qed.
Print Assumptions C16_query_is_readonly.

Theorem C16_query_is_readonly_components : forall (rx : bytes -> option (bytes -> bool)) (V : variant) (s : state) (q : qreq),
  let s' := fst (post_query rx V s q) in
  st_head s' = st_head s /\ st_parents s' = st_parents s /\ st_branch s' = st_branch s
  /\ st_mem s' = st_mem s /\ st_bmem s' = st_bmem s /\ st_static s' = st_static s
  /\ m_fields (st_mem s') = m_fields (st_mem s) /\ m_ftimes (st_mem s') = m_ftimes (st_mem s)
  /\ m_ids (st_mem s') = m_ids (st_mem s)
  /\ st_mmeta s' = st_mmeta s /\ st_compiled s' = st_compiled s /\ st_locked s' = st_locked s
  /\ st_cfg s' = st_cfg s.
Proof. exact post_query_components. Qed.
Print Assumptions C16_query_is_readonly_components.

(* In EVERY history of updating requests with POST queries interleaved anywhere, the queries can be
   erased: the final state is the one of the history without them. *)
Theorem C16_queries_erasable : forall (rx : bytes -> option (bytes -> bool)) (V : variant) (h : list req) (s : state),
  run_reqs rx V s h = run V s (erase_queries h).
Proof. exact (fun rx V h s => run_reqs_erase rx V h s). Qed.
Print Assumptions C16_queries_erasable.

(* non-vacuity: a history with queries on the head, on a committed version, on a version that does
   not exist, with an unparsable body and an empty list; the answers are not all errors *)
Example C16_query_history_inhabited :
  (exists s, run_reqs (fun _ => None) repaired init_state qh_sample = Ok s /\ m_ids (st_mem s) = [])
  /\ query_answers (fun _ => None) repaired init_state qh_sample
     = [Some (XIds [10]); Some XErr; Some XErr; None; Some (XIds [10]); Some (XIds [])].
Proof. exact qh_sample_runs. Qed.
