(* C02 — Committed versions are immutable.
   Statements only; proofs are in Proofs/Gate.v, Proofs/CoreGate.v and Proofs/Core.v.
   [gate] (Model/Gate.v) evaluates the refusal conditions, middleware chains, branch whitelist,
   keyword shortcuts and IsMutationRequest tables that harness/cmd/gen extracts from server/web.go,
   datastore/datainstance.go and datatype/*/ on every run (Gen/Routes.v): each theorem below is
   re-proved against the current source. *)
From Coq Require Import String List Bool.
From DV Require Import Base.Prelude Model.Dag Model.Resolve Model.Core Base.GateTypes Gen.Routes Model.Gate
  Model.CoreGate Proofs.Resolve Proofs.Core Proofs.Gate Proofs.CoreGate.
Import ListNotations.
Local Open Scope string_scope.

(* For EVERY generated data-instance route (datatype package, endpoint keyword) and every method in
   {POST, PUT, DELETE}: on a committed node, without full-write mode and without the admin token,
   the request is refused -- unless it is one of the audited read-only triples
   (neuronjson POST query, roi POST ptquery).  The bound is the generated table. *)
Theorem C02_gate_table_sound : forall pkg kw ms meth,
  In (pkg, kw, ms) instance_routes -> In meth ["post"; "put"; "delete"] ->
  ~ In (pkg, kw, meth) proved_readonly ->
  gate mode_default false true true (RInst pkg kw) meth = Refuse.
Proof. exact gate_table_sound. Qed.
Print Assumptions C02_gate_table_sound.

(* The same for every keyword STRING, listed or not (a keyword added to a ServeHTTP is gated
   before it is ever listed), except the keywords instanceSelector serves before its gate. *)
Theorem C02_gate_any_keyword : forall pkg kw meth,
  In meth ["post"; "put"; "delete"] -> ~ In kw ["blobstore"] ->
  ~ In (pkg, kw, meth) proved_readonly ->
  gate mode_default false true true (RInst pkg kw) meth = Refuse.
Proof. exact gate_any_keyword. Qed.
Print Assumptions C02_gate_any_keyword.

(* The read-only list is not proved read-only here: every IsMutationRequest override of the source
   must be on it (a widened override re-opens this), and the driver checks on every run, by store
   digests, that these requests change nothing. *)
Theorem C02_overrides_audited : forall o, In o mutation_overrides -> In o proved_readonly.
Proof. exact overrides_are_audited. Qed.
Print Assumptions C02_overrides_audited.

(* Creating child versions stays allowed on a committed node. *)
Theorem C02_branching_allowed : forall a, In a ["branch"; "newversion"; "tag"] ->
  gate mode_default false true true (RNode a) "post" = Allow.
Proof. exact branching_allowed. Qed.
Print Assumptions C02_branching_allowed.

(* Every other node-level request that is not GET/HEAD (note, log, commit, any unknown action) is
   refused on a committed node: for every registered node route, and for every action string. *)
Theorem C02_node_routes_sound : forall meth a, In (meth, a) node_actions ->
  ~ In meth ["get"; "head"] -> ~ In a ["branch"; "newversion"; "tag"] ->
  gate mode_default false true true (RNode a) meth = Refuse.
Proof. exact node_routes_sound. Qed.
Print Assumptions C02_node_routes_sound.

Theorem C02_node_any_action : forall a meth,
  not_read meth = true -> ~ In a ["branch"; "newversion"; "tag"] ->
  gate mode_default false true true (RNode a) meth = Refuse.
Proof. exact node_any_action. Qed.
Print Assumptions C02_node_any_action.

Theorem C02_new_instance_refused_on_locked :
  gate mode_default false true true (RRepo "instance") "post" = Refuse.
Proof. exact new_instance_refused_on_locked. Qed.

Theorem C02_recommit_refused : forall md admin, gate md admin true true (RNode "commit") "post" = Refuse.
Proof. exact recommit_refused. Qed.

(* Mode matrix.  Read-only mode refuses every request other than GET/HEAD on every repo-, node-
   and instance-level route, whatever the other switches. *)
Theorem C02_mode_readonly : forall fw locked versioned r meth,
  not_read meth = true ->
  gate {| m_readonly := true; m_fullwrite := fw |} false locked versioned r meth = Refuse.
Proof. exact readonly_refuses_all. Qed.
Print Assumptions C02_mode_readonly.

(* Full-write mode and the admin token each lift the lock for every data-instance request ... *)
Theorem C02_mode_fullwrite_widens : forall locked versioned pkg kw meth,
  gate mode_fullwrite false locked versioned (RInst pkg kw) meth = Allow.
Proof. exact fullwrite_allows. Qed.
Theorem C02_mode_admin_widens : forall md locked versioned pkg kw meth,
  gate md true locked versioned (RInst pkg kw) meth = Allow.
Proof. exact admin_allows. Qed.

(* ... and they are the only widenings: without either, the verdict is a function of the lock and
   of IsMutationRequest alone (plus "not GET/HEAD" in read-only mode). *)
Theorem C02_mode_no_other_widening : forall ro locked versioned pkg kw meth,
  is_shortcut kw = false ->
  gate {| m_readonly := ro; m_fullwrite := false |} false locked versioned (RInst pkg kw) meth =
  if (ro && not_read meth) || (locked && is_mutation pkg kw meth && versioned) then Refuse else Allow.
Proof. exact no_other_widening. Qed.
Print Assumptions C02_mode_no_other_widening.

(* The lock does not make open nodes read-only. *)
Theorem C02_open_node_writable : forall versioned pkg kw meth,
  gate mode_default false false versioned (RInst pkg kw) meth = Allow.
Proof. exact open_node_writable. Qed.

(* History level (Model.Core): whatever history runs later, a committed version keeps reading
   what it read.  (Proofs.Core.get_stable, the theorem behind C01_history_committed_reads_stable.) *)
Theorem C02_committed_reads_stable :
  forall ops later k v, let c := run ops core_init in
    In v (locked c) -> get (run later c) k v = get c k v.
Proof. intros ops later k v c. apply get_stable. apply core_inv_run. exact core_inv_init. Qed.
Print Assumptions C02_committed_reads_stable.

(* The gate composed with the history machine: the handlers themselves never look at the lock,
   only the gate does.  In default mode the gated machine is exactly Model.Core ... *)
Theorem C02_gated_machine_is_core : forall pkg kw c o, plain_endpoint pkg kw ->
  gated_step mode_default false pkg kw c o = step c o.
Proof. exact gated_default_is_step. Qed.
Print Assumptions C02_gated_machine_is_core.

(* ... so every request sequence the gate lets through leaves every store entry (value or
   tombstone, every key) of a committed version unchanged, and its reads stable. *)
Theorem C02_gated_store_unchanged : forall pkg kw ops c k v, plain_endpoint pkg kw ->
  In v (locked c) ->
  lookup_kv k v (store (gated_run mode_default false pkg kw ops c)) = lookup_kv k v (store c).
Proof. exact gated_locked_store_unchanged. Qed.
Print Assumptions C02_gated_store_unchanged.

Theorem C02_gated_reads_stable : forall pkg kw ops later k v, plain_endpoint pkg kw ->
  let c := run ops core_init in
  In v (locked c) -> get (gated_run mode_default false pkg kw later c) k v = get c k v.
Proof. exact gated_reads_stable. Qed.
Print Assumptions C02_gated_reads_stable.

(* Non-vacuity.  The widenings really overwrite a committed version in the same machine (so the
   theorems above are about the gate, not about an inert model); the table is not empty; a locked
   keyvalue POST is refused while GET, PATCH and the audited POST query pass. *)
Theorem C02_widening_refutes_immutability :
  let c := run [OPut 7 1 100; OCommit 1 true]%N core_init in
  In 1%N (locked c) /\
  lookup_kv 7%N 1%N (store c) = Some (Val 100%N) /\
  lookup_kv 7%N 1%N (store (gated_run mode_fullwrite false "keyvalue" "key" [OPut 7 1 200]%N c)) = Some (Val 200%N) /\
  lookup_kv 7%N 1%N (store (gated_run mode_default true "keyvalue" "key" [ODel 7 1]%N c)) = Some Tomb /\
  lookup_kv 7%N 1%N (store (gated_run mode_default false "keyvalue" "key" [OPut 7 1 200; ODel 7 1]%N c)) = Some (Val 100%N).
Proof. exact widened_overwrites_committed. Qed.

Example C02_plain_endpoint_inhabited : plain_endpoint "keyvalue" "key".
Proof. exact keyvalue_key_is_plain. Qed.

Example C02_concrete :
  existsb (fun e => triple_eqb (fst (fst e), snd (fst e), "x") ("keyvalue", "key", "x")) instance_routes = true /\
  (100 <=? length instance_routes)%nat = true /\
  gate mode_default false true true (RInst "keyvalue" "key") "post" = Refuse /\
  gate mode_default false true true (RInst "keyvalue" "key") "get" = Allow /\
  gate mode_default false true true (RInst "keyvalue" "key") "patch" = Allow /\
  gate mode_default false true true (RInst "neuronjson" "query") "post" = Allow /\
  gate mode_default false true true (RInst "neuronjson" "key") "post" = Refuse /\
  gate mode_default false true true (RInst "labelmap" "blobstore") "post" = Allow /\
  gate mode_default false true true (RNode "note") "post" = Refuse /\
  gate mode_default false true true (RNode "note") "delete" = Refuse /\
  gate mode_default false false true (RNode "note") "delete" = NoRoute /\
  gate mode_readonly false false true (RNode "branch") "post" = Refuse.
Proof. vm_compute. repeat split. Qed.
