(* C17 — Image volumes return exactly the voxels that were written.
   Only statements, each closed by [exact] of a lemma proved in Proofs/, and Print Assumptions.
   Model: coq/Model/ImageBlk.v (datatype/imageblk read.go / write.go / imageblk.go); the store is a
   map block coordinate -> block bytes. *)
From DV Require Import Base.Prelude Base.WrapZ Model.Geometry Model.ROI Model.ImageBlk
  Proofs.Geometry Proofs.ROI Proofs.ImageBlk Proofs.ImageBlkStore.
From Coq Require Sorting.Sorted.
Local Open Scope Z_scope.

(* Vocabulary.
   cfg_ok c      block dimensions 1..1024, 1..8 bytes per voxel (8/16/32/64-bit, float32, rgba8).
   geom_ok g     offset coordinates of magnitude <= 2^29, extents 1..2^20: XY, XZ, YZ slice or 3d box.
   wop_ok c w    w is a block-aligned 3d write (any, also negative, block coordinates; optional
                 ROI of sorted spans) or a block stream, with the right number of bytes.
   pos c g s p ch   position in the request buffer of byte ch of voxel p (p absolute), row stride s.
   last_write c ws p ch   byte ch of voxel p in the last write of the chronological list ws that
                 covers p, if any.
   bg_at c ch    byte ch of the background voxel (bgfix c: the voxel whose every value is
                 Background, repo_patches/C17-4-fix.diff; else the code as it stood). *)

(* One block against one geometry, both directions (readBlock / writeBlock), for all four shapes
   and any row stride >= width: exactly the voxels of the geometry that lie in the block move,
   each to the position of the same voxel on the other side; everything else is untouched. *)
Theorem C17_block_transfer : forall c g stride b data blk,
  cfg_ok c -> geom_ok g -> meets g (bsz c) b -> stride_ok c g stride -> data_len_ok c g stride data ->
  zlen blk = block_bytes c ->
  (exists d', read_block c g stride data blk b = Ok d' /\ xfer_read_post c g stride b data blk d')
  /\ (exists b', write_block c g stride data blk b = Ok b' /\ xfer_write_post c g stride b data blk b').
Proof. exact block_xfer. Qed.
Print Assumptions C17_block_transfer.

(* The blocks visited for a geometry (IndexZYXIterator, whose Valid() compares key bytes: C18) are
   exactly the blocks that contain a voxel of it, in (z, y, x) order. *)
Theorem C17_block_iteration : forall c g, cfg_ok c -> geom_ok g ->
  exists bl, geom_blocks c g = Ok bl /\ (forall b, In b bl <-> meets g (bsz c) b)
    /\ Sorted.StronglySorted pt_zyx_le bl.
Proof. exact geom_blocks_spec. Qed.
Print Assumptions C17_block_iteration.

(* read_after_writes: for EVERY sequence of writes -- block-aligned raw writes, with or without an
   ROI, and block streams, at any (negative) block coordinates, in any order -- and EVERY read
   geometry (3d box of any alignment, XY / XZ / YZ slice, crossing block borders, partly or wholly
   outside the written area), the read succeeds and byte ch of every voxel p of the geometry is the
   byte of the last write that set p, else the background voxel's byte. *)
Theorem C17_read_after_writes : forall c ws g, cfg_ok c -> Forall (wop_ok c) ws -> geom_ok g ->
  exists s buf, apply_writes c st0 ws = Ok s /\ get_raw true c s g None = Ok buf
    /\ zlen buf = bpv c * g_numvoxels g
    /\ forall p ch, in_geom g p -> 0 <= ch < bpv c ->
         nthZ buf (pos c g (gw g * bpv c) p ch)
         = match last_write c ws p ch with Some v => v | None => bg_at c ch end.
Proof. exact read_after_writes_plain. Qed.
Print Assumptions C17_read_after_writes.

(* ... and read through an ROI (sorted well-formed spans, as the store returns them), with or
   without attenuation: inside the ROI as above; outside it the background, or with ?attenuation=n
   the stored byte shifted right by n (one-byte voxels; repaired readScaledBlock, C17-5).
   ROI completeness is part of this: a voxel whose block IS in the ROI of the write that covers it
   last was written (last_write) and is read back. *)
Theorem C17_read_after_writes_roi : forall c ws g roi att,
  cfg_ok c -> Forall (wop_ok c) ws -> geom_ok g -> roi_wf roi ->
  exists s buf, apply_writes c st0 ws = Ok s /\ get_raw_att true c s g roi att = Ok buf
    /\ zlen buf = bpv c * g_numvoxels g
    /\ forall p ch, in_geom g p -> 0 <= ch < bpv c ->
         nthZ buf (pos c g (gw g * bpv c) p ch) = shown c roi att (last_write c ws p ch) (block_of (bsz c) p) ch.
Proof. exact read_after_writes_l. Qed.
Print Assumptions C17_read_after_writes_roi.

(* the ROI sweep (InsideFast over the visited blocks) flags exactly the blocks of the span set *)
Theorem C17_roi_sweep_complete : forall spans bl,
  Forall span_wf spans -> spans_sorted spans -> Sorted.StronglySorted pt_zyx_le bl ->
  roi_flags (Some spans) bl = map (fun b => (b, in_spans b spans)) bl.
Proof. exact roi_flags_ok. Qed.
Print Assumptions C17_roi_sweep_complete.

(* the background is the voxel whose every value is Background once C17-4 is in (bgfix) ... *)
Theorem C17_background_voxel : forall c ch, bgfix c = true -> bg_at c ch = nth (Z.to_nat ch) (bgpat c) 0%N.
Proof. exact bg_at_fixed. Qed.
(* ... before it, voxels wider than one byte had none: raw reads gave 0, GET blocks 0x0707 *)
Theorem C17_wide_background_refuted :
  exists c g p, cfg_ok c /\ bgfix c = false /\ geom_ok g /\ in_geom g p /\
    (exists buf, get_raw true c st0 g None = Ok buf
       /\ nthZ buf (pos c g (gw g * bpv c) p 0) <> nth 0 (bgpat c) 0%N)
    /\ get_blocks c st0 (0, 0, 0) 1 <> concat (repeat (bgpat c) (Z.to_nat (block_voxels c))).
Proof. exact wide_background_refuted. Qed.
(* and before C17-1 the response buffer was zeroed *)
Theorem C17_unwritten_background_refuted :
  exists c g p, cfg_ok c /\ geom_ok g /\ in_geom g p /\
    exists buf, get_raw false c st0 g None = Ok buf /\ nthZ buf (pos c g (gw g * bpv c) p 0) <> bg_at c 0.
Proof. exact nofill_refuted. Qed.

(* extents_cover: the advertised extents contain the box of every write (raw volume or block stream) *)
Theorem C17_extents_cover : forall c ws s, cfg_ok c -> Forall (wop_ok c) ws -> apply_writes c st0 ws = Ok s ->
  forall w, In w ws -> covers (ext s) (fst (op_box c w)) (snd (op_box c w)).
Proof. exact extents_cover_l. Qed.
Print Assumptions C17_extents_cover.

(* roi_write_frame: a write restricted by an ROI changes no block outside the ROI (for every
   span list, in whatever order the spans are) *)
Theorem C17_roi_write_frame : forall c s off size data spans s',
  post_raw c s off size data (Some spans) = Ok s' ->
  forall b, in_spans b spans = false -> st_get (blocks s') b = st_get (blocks s) b.
Proof. exact roi_write_frame_l. Qed.
Print Assumptions C17_roi_write_frame.

(* block streams (repaired code): POST blocks then GET blocks returns the posted bytes for every
   voxel width, and the extents cover the posted blocks *)
Theorem C17_blocks_roundtrip : forall c s start span data, cfg_ok c -> 1 <= span <= 524288 ->
  - 524288 <= px start <= 524288 -> - 524288 <= py start <= 524288 -> - 524288 <= pz start <= 524288 ->
  zlen data = span * block_bytes c ->
  exists s', post_blocks true c s start span data = Ok s' /\ get_blocks c s' start span = data
    /\ covers (ext s') (bmin c start) (pminus (bmin c (px start + span, py start + 1, pz start + 1)) (1, 1, 1)).
Proof. exact post_blocks_ok. Qed.
Print Assumptions C17_blocks_roundtrip.

(* the code before C17-2 / C17-3 *)
Theorem C17_post_blocks_width_refuted :
  exists c start span data s, cfg_ok c /\ zlen data = span * block_bytes c
    /\ post_blocks false c st0 start span data = Ok s /\ get_blocks c s start span <> data.
Proof. exact post_blocks_orig_refuted. Qed.
Theorem C17_post_blocks_extents_refuted :
  exists c start span data s, cfg_ok c /\ zlen data = span * block_bytes c
    /\ post_blocks false c st0 start span data = Ok s /\ ext s = None.
Proof. exact post_blocks_orig_extents_refuted. Qed.

(* ---- non-vacuity: a history with negative block coordinates, an overwrite, an ROI-restricted
   write, a block stream, and reads in all four shapes crossing block borders and leaving the
   written area, with and without ROI / attenuation ---- *)
Example C17_ex :
  let c := C (4, 2, 2) 1 9 [9%N] true in
  let roi := Some [SP (-1) 0 (-1) (-1); SP (-1) 0 1 1] in
  let w1 := WRaw (-4, 0, -2) (8, 2, 2) (map N.of_nat (seq 1 32)) None in
  let w2 := WRaw (-4, 0, -2) (12, 2, 2) (map N.of_nat (seq 101 48)) roi in
  let w3 := WBlk (2, 1, 0) 1 (map N.of_nat (seq 201 16)) in
  cfg_ok c /\ Forall (wop_ok c) [w1; w2; w3] /\ roi_wf roi
  /\ (exists s, apply_writes c st0 [w1; w2; w3] = Ok s
      /\ get_raw true c s (G XY (-2, 1, -1) 9 1 1) None = Ok [139;140; 29;30;31;32; 145;146;147]%N
      /\ get_raw_att true c s (G XY (-2, 1, -1) 9 1 1) roi 1 = Ok [139;140; 14;15;15;16; 145;146;147]%N
      /\ get_raw_att true c s (G XY (-2, 1, -1) 9 1 1) roi 0 = Ok [139;140; 9;9;9;9; 145;146;147]%N
      /\ get_raw true c s (G YZ (9, 1, -1) 3 2 1) None = Ok [9;9;9; 9;202;206]%N
      /\ ext s = Some ((-4, 0, -2), (11, 3, 1))).
Proof.
  cbv zeta. split; [unfold cfg_ok, px, py, pz; cbn; lia|].
  assert (R : roi_wf (Some [SP (-1) 0 (-1) (-1); SP (-1) 0 1 1])).
  { split.
    - constructor; [unfold span_wf; cbn; lia|]. constructor; [unfold span_wf; cbn; lia|constructor].
    - constructor; [constructor; [constructor|constructor]|].
      constructor; [unfold span_start_le; cbn; lia|constructor]. }
  split.
  { constructor; [cbn [wop_ok roi_wf]; repeat split; unfold geom_ok, raw_geom, px, py, pz; cbn; lia|].
    constructor; [cbn [wop_ok]; split; [unfold geom_ok, raw_geom, px, py, pz; cbn; lia|];
                  split; [vm_compute; reflexivity|]; split; [vm_compute; reflexivity|exact R]|].
    constructor; [cbn [wop_ok]; unfold px, py, pz; cbn; lia|constructor]. }
  split; [exact R|].
  eexists. split; [vm_compute; reflexivity|]. repeat split; vm_compute; reflexivity.
Qed.
