(* C17 — Image volumes return exactly the voxels that were written.
   Only statements, each closed by [exact] of a lemma proved in Proofs/, and Print Assumptions.
   Model: coq/Model/ImageBlk.v (datatype/imageblk read.go / write.go / imageblk.go); the store is a
   map block coordinate -> block bytes. *)
From DV Require Import Base.Prelude Base.WrapZ Model.Geometry Model.ROI Model.ImageBlk
  Proofs.Geometry Proofs.ROI Proofs.ImageBlk Proofs.ImageBlkStore.
Local Open Scope Z_scope.

(* Vocabulary.
   cfg_ok c      block dimensions 1..1024, 1..8 bytes per voxel (8/16/32/64-bit, float32, rgba8).
   geom_ok g     offset coordinates of magnitude <= 2^29, extents 1..2^20: XY, XZ, YZ slice or 3d box.
   wq_ok c w     w is a block-aligned 3d write (any, also negative, block coordinates) with the
                 right number of bytes.
   pos c g s p ch   position in the request buffer of byte ch of voxel p (p absolute), row stride s.
   last_write c ws p ch   byte ch of voxel p in the last write of the chronological list ws that
                 covers p, if any.
   init_byte fill c   what NewVoxels puts in the buffer: the background byte once it is preset
                 (fill = true, repo_patches/C17-1-fix.diff), 0 in the code as it stood. *)

(* One block against one geometry, both directions (readBlock / writeBlock), for all four shapes
   and any row stride >= width: exactly the voxels of the geometry that lie in the block move,
   each to the position of the same voxel on the other side; everything else is untouched. *)
Theorem C17_block_transfer : forall c g stride b data blk,
  cfg_ok c -> geom_ok g -> meets g (bsz c) b -> stride_ok c g stride -> data_len_ok c g stride data ->
  zlen blk = block_bytes c ->
  (exists d', read_block c g stride data blk b = Ok d' /\ xfer_read_post c g stride b data blk d')
  /\ (exists b', write_block c g stride data blk b = Ok b' /\ xfer_write_post c g stride b data blk b').
Proof. exact block_xfer. Qed.
Print Assumptions C17_block_transfer.

(* The blocks visited for a geometry (IndexZYXIterator, whose Valid() compares key bytes: C18) are
   exactly the blocks that contain a voxel of it. *)
Theorem C17_block_iteration : forall c g, cfg_ok c -> geom_ok g ->
  exists bl, geom_blocks c g = Ok bl /\ forall b, In b bl <-> meets g (bsz c) b.
Proof. exact geom_blocks_spec. Qed.
Print Assumptions C17_block_iteration.

(* read_after_writes: for EVERY sequence of block-aligned writes and EVERY read geometry (3d box
   of any alignment, XY / XZ / YZ slice, crossing block borders, partly or wholly outside the
   written area), the read succeeds and byte ch of every voxel p of the geometry is the byte of
   the last write covering p, else the background. *)
Theorem C17_read_after_writes : forall c ws g, cfg_ok c -> Forall (wq_ok c) ws -> geom_ok g ->
  exists s buf, apply_writes c st0 ws = Ok s /\ get_raw true c s g None = Ok buf
    /\ zlen buf = bpv c * g_numvoxels g
    /\ forall p ch, in_geom g p -> 0 <= ch < bpv c ->
         nthZ buf (pos c g (gw g * bpv c) p ch)
         = match last_write c ws p ch with Some v => v | None => bg_byte c end.
Proof. exact (read_after_writes_l true). Qed.
Print Assumptions C17_read_after_writes.

(* the same for the code before C17-1, with 0 in place of the background ... *)
Theorem C17_read_after_writes_partial : forall c ws g, cfg_ok c -> Forall (wq_ok c) ws -> geom_ok g ->
  exists s buf, apply_writes c st0 ws = Ok s /\ get_raw false c s g None = Ok buf
    /\ zlen buf = bpv c * g_numvoxels g
    /\ forall p ch, in_geom g p -> 0 <= ch < bpv c ->
         nthZ buf (pos c g (gw g * bpv c) p ch)
         = match last_write c ws p ch with Some v => v | None => 0%N end.
Proof. exact (read_after_writes_l false). Qed.
(* ... which is not the background when Background <> 0 *)
Theorem C17_unwritten_background_refuted :
  exists c ws g p, cfg_ok c /\ Forall (wq_ok c) ws /\ geom_ok g /\ in_geom g p /\ last_write c ws p 0 = None /\
    exists s buf, apply_writes c st0 ws = Ok s /\ get_raw false c s g None = Ok buf
      /\ nthZ buf (pos c g (gw g * bpv c) p 0) <> bg_byte c.
Proof. exact nofill_refuted. Qed.

(* extents_cover: the advertised extents contain every written box *)
Theorem C17_extents_cover : forall c ws s, cfg_ok c -> Forall (wq_ok c) ws -> apply_writes c st0 ws = Ok s ->
  forall w, In w ws -> covers (ext s) (wq_off w) (gend (wq_geom w)).
Proof. exact extents_cover_l. Qed.
Print Assumptions C17_extents_cover.

(* roi_write_frame: a write restricted by an ROI changes no block outside the ROI (for every
   span list, in whatever order the spans are) *)
Theorem C17_roi_write_frame : forall c s off size data spans s',
  post_raw c s off size data (Some spans) = Ok s' ->
  forall b, in_spans b spans = false -> st_get (blocks s') b = st_get (blocks s) b.
Proof. exact roi_write_frame_l. Qed.
Print Assumptions C17_roi_write_frame.

(* block streams (repaired code): POST blocks then GET blocks returns the posted bytes for every
   voxel width, and the extents cover the posted blocks *)
Theorem C17_blocks_roundtrip : forall c s start span data, cfg_ok c -> 1 <= span <= 524288 ->
  - 524288 <= px start <= 524288 -> - 524288 <= py start <= 524288 -> - 524288 <= pz start <= 524288 ->
  zlen data = span * block_bytes c ->
  exists s', post_blocks true c s start span data = Ok s' /\ get_blocks c s' start span = data
    /\ covers (ext s') (bmin c start) (pminus (bmin c (px start + span, py start + 1, pz start + 1)) (1, 1, 1)).
Proof. exact post_blocks_ok. Qed.
Print Assumptions C17_blocks_roundtrip.

(* the code before C17-2 / C17-3 *)
Theorem C17_post_blocks_width_refuted :
  exists c start span data s, cfg_ok c /\ zlen data = span * block_bytes c
    /\ post_blocks false c st0 start span data = Ok s /\ get_blocks c s start span <> data.
Proof. exact post_blocks_orig_refuted. Qed.
Theorem C17_post_blocks_extents_refuted :
  exists c start span data s, cfg_ok c /\ zlen data = span * block_bytes c
    /\ post_blocks false c st0 start span data = Ok s /\ ext s = None.
Proof. exact post_blocks_orig_extents_refuted. Qed.

(* ---- non-vacuity: a history with negative block coordinates, an overwrite, and reads in all
   four shapes crossing block borders and leaving the written area ---- *)
Example C17_ex :
  let c := C (4, 2, 2) 2 0 in
  let w1 := WR (-4, 0, -2) (8, 2, 2) (map N.of_nat (seq 1 64)) in
  let w2 := WR (0, 0, -2) (4, 4, 2) (map N.of_nat (seq 101 64)) in
  cfg_ok c /\ Forall (wq_ok c) [w1; w2]
  /\ (exists s, apply_writes c st0 [w1; w2] = Ok s
      /\ get_raw true c s (G XY (-2, 1, -1) 4 2 1) None = Ok [53;54; 55;56; 141;142; 143;144;  0;0; 0;0; 149;150; 151;152]%N
      /\ get_raw true c s (G YZ (1, 1, -3) 3 2 1) None = Ok [0;0; 0;0; 0;0;  111;112; 119;120; 127;128]%N
      /\ get_raw true c s (G XZ (3, 3, -2) 2 3 1) None = Ok [131;132; 0;0;  163;164; 0;0;  0;0; 0;0]%N
      /\ get_raw true c s (G Vol3d (-1, 1, -1) 3 2 2) None
         = Ok [55;56; 141;142; 143;144;  0;0; 149;150; 151;152;  0;0; 0;0; 0;0;  0;0; 0;0; 0;0]%N
      /\ ext s = Some ((-4, 0, -2), (3, 3, -1))).
Proof.
  cbv zeta. split; [unfold cfg_ok, px, py, pz; cbn; lia|].
  split; [repeat constructor; unfold geom_ok, px, py, pz; cbn; lia|].
  eexists. split; [vm_compute; reflexivity|]. repeat split; vm_compute; reflexivity.
Qed.
