(* C03 — A restart changes nothing observable.
   Only statements, each closed by [exact] of a lemma proved in Proofs/, and Print Assumptions. *)
From DV Require Import Base.Prelude Model.Persist Model.Heads Model.IDs Model.MapLog Model.MapLogV
     Proofs.Persist Proofs.IDs Proofs.MapLog Proofs.Restart Proofs.Heads Proofs.MapLogV.
Local Open Scope N_scope.

(* ---- repos, version DAG, commit flags, instances ---- *)
(* restart_refines, metadata: from any state in which memory and store agree, after ANY history of
   operations whose merges were accepted, cut at ANY point, a new process shows exactly the repos
   the running server showed; the restarted pair satisfies the same hypotheses again, so the
   statement applies to every further history and restart (any number of restarts). *)
Theorem C03_restart_refines_repos : forall C m img ops,
  pinv m img = true -> synced m img -> run_accepted C m ops = true ->
  let '(m', img') := prun_img C m img ops in
  exists mr wr, recover C img' = Ok (mr, wr) /\ pobserve mr = pobserve m' /\
                pinv mr (apply_ws img' wr) = true /\ synced mr (apply_ws img' wr).
Proof. exact restart_refines_repos. Qed.
Print Assumptions C03_restart_refines_repos.

Theorem C03_initial_state_synced : forall C,
  pinv (init_mgr C) (apply_ws empty_image (init_writes C)) = true /\
  synced (init_mgr C) (apply_ws empty_image (init_writes C)).
Proof. intro C. split; [apply init_pinv|apply init_synced]. Qed.
Print Assumptions C03_initial_state_synced.

(* Refuted for histories containing a REFUSED merge (the child node stays in memory unsaved: the
   finding recorded under C07): the running server shows a node the restarted one does not. *)
Theorem C03_restart_refines_refuted :
  let '(m, img) := r_run [PNewRepo 11; PCommit 1 1; PNewVersion 1 1 None 12; PMerge 1 [1; 2] 13] in
  match recover r_conf img with
  | Ok (mr, _) => pobserve mr <> pobserve m
  | _ => False
  end.
Proof. exact restart_refines_refuted. Qed.
Print Assumptions C03_restart_refines_refuted.

(* ---- branch heads ---- *)
(* Repaired code (repo_patches/C03-3-fix.diff): the head of a branch is the node with the largest
   version id carrying the branch name, computed from the DAG both while running and at start-up.
   After ANY history with accepted merges, cut anywhere, every branch of every repo resolves to the
   same node before and after a restart (merge nodes are on master). *)
Theorem C03_branch_heads_restart : forall C m img ops rid br,
  pinv m img = true -> synced m img -> run_accepted C m ops = true ->
  let '(m', img') := prun_img C m img ops in
  exists mr wr, recover C img' = Ok (mr, wr) /\ branch_head mr rid br = branch_head m' rid br.
Proof. exact branch_head_restart. Qed.
Print Assumptions C03_branch_heads_restart.

Theorem C03_branch_heads_examples :
  (let '(m, _) := r_run [PNewRepo 11; PCommit 1 1; PNewVersion 1 1 None 12; PNewVersion 1 1 (Some 7) 13;
                         PCommit 1 2; PCommit 1 3; PMerge 1 [2; 3] 14] in
   branch_head m 1 0 = Some 4 /\ branch_head m 1 7 = Some 3) /\
  (let '(m, _) := r_run [PNewRepo 11; PCommit 1 1; PNewVersion 1 1 (Some 7) 12] in
   branch_head m 1 0 = Some 1 /\ branch_head m 1 7 = Some 2) /\
  (let '(m, _) := r_run [PNewRepo 11; PCommit 1 1; PNewVersion 1 1 None 12; PNewVersion 1 1 (Some 7) 13;
                         PNewVersion 1 1 (Some 8) 14; PCommit 1 3; PCommit 1 4; PMerge 1 [3; 4] 15] in
   branch_head m 1 0 = Some 5).
Proof. exact branch_head_examples. Qed.
Print Assumptions C03_branch_heads_examples.

(* Round 4.  The CACHE of the repaired code (Model.Heads.hstep: branchToUUID is replaced from the DAG
   by newRepo, newVersion and accepted merges only; commit, instance creation/deletion, repo deletion
   and REFUSED requests do not touch it; a refused merge changes nothing at all) against the cache
   start-up builds (hrestart).  For EVERY request list -- no acceptance hypothesis -- from every
   state where memory, cache and store agree (hgood), cut anywhere: the restart succeeds, shows the
   same repos, resolves every branch name of every repo there is to the same node as the running
   server's cache, and is a state the theorem applies to again.  By induction over the requests. *)
Theorem C03_branch_heads_cache_restart : forall C m hc img ops, hgood m hc img ->
  let '(m', hc', img') := hrun_img C m hc img ops in
  exists mr hcr imgr, hrestart C img' = Ok (mr, hcr, imgr) /\ hobs_eq m' hc' mr hcr /\ hgood mr hcr imgr.
Proof. exact heads_restart_general. Qed.
Print Assumptions C03_branch_heads_cache_restart.

(* non-vacuity: the state of a server started on an empty store is such a state *)
Example C03_hgood_initial : forall C, hgood (init_mgr C) [] (apply_ws empty_image (init_writes C)).
Proof. exact hgood_init. Qed.
Print Assumptions C03_hgood_initial.

(* hence without any hypothesis: every request list on a new server; in addition the running
   server's cache IS the DAG function (branch_head) for every repo there is *)
Theorem C03_branch_heads_cache_from_init : forall C ops,
  let '(m', hc', img') := hrun_img C (init_mgr C) [] (apply_ws empty_image (init_writes C)) ops in
  exists mr hcr imgr, hrestart C img' = Ok (mr, hcr, imgr) /\ pobserve mr = pobserve m' /\
    forall rid br, amem rid (m_repos m') = true ->
      cached_head hcr rid br = cached_head hc' rid br /\ cached_head hc' rid br = branch_head m' rid br.
Proof. exact heads_restart_from_init. Qed.
Print Assumptions C03_branch_heads_cache_from_init.

(* a history with refused merges (unlocked parent, a parent listed twice), evaluated *)
Example C03_branch_heads_cache_example :
  let '(m, hc, img) := hrun_img r_conf (init_mgr r_conf) [] (apply_ws empty_image (init_writes r_conf)) hx_ops in
  map (cached_head hc 1) [0; 7; 8; 9] = [Some 4; Some 3; Some 5; None] /\
  match hrestart r_conf img with
  | Ok (mr, hcr, _) => map (cached_head hcr 1) [0; 7; 8; 9] = [Some 4; Some 3; Some 5; None] /\ pobserve mr = pobserve m
  | _ => False
  end.
Proof. exact heads_cache_example. Qed.
Print Assumptions C03_branch_heads_cache_example.

(* Round 4, any number of restarts interleaved with requests: run h1; restart; run h2; restart; ...;
   run hn (hrun_segs: each restart replaces the manager by the loaded one and the cache by the one
   start-up builds) succeeds and is observably -- repos and every branch name of every repo there
   is -- the uninterrupted run of h1 ++ h2 ++ ... ++ hn, for EVERY list of request lists (refused
   requests included); the final state is again one the theorem applies to. *)
Theorem C03_restarts_interleaved : forall C segs m hc img, hgood m hc img -> inst_ok C m ->
  exists mf hcf imgf, hrun_segs C m hc img segs = Ok (mf, hcf, imgf) /\
    hgood mf hcf imgf /\ inst_ok C mf /\
    let '(m', hc', _) := hrun_img C m hc img (concat segs) in hobs_eq mf hcf m' hc'.
Proof. exact segs_refine_same. Qed.
Print Assumptions C03_restarts_interleaved.

Example C03_inst_ok_initial : forall C, inst_ok C (init_mgr C).
Proof. exact inst_ok_init. Qed.
Print Assumptions C03_inst_ok_initial.

(* without hypotheses: a server started on an empty store *)
Theorem C03_restarts_interleaved_from_init : forall C segs,
  exists mf hcf imgf,
    hrun_segs C (init_mgr C) [] (apply_ws empty_image (init_writes C)) segs = Ok (mf, hcf, imgf) /\
    let '(m', hc', _) := hrun_img C (init_mgr C) [] (apply_ws empty_image (init_writes C)) (concat segs) in
    hobs_eq mf hcf m' hc'.
Proof. exact segs_refine_from_init. Qed.
Print Assumptions C03_restarts_interleaved_from_init.

Example C03_restarts_interleaved_example :
  let segs := [[PNewRepo 11; PCommit 1 1; PNewVersion 1 1 None 12; PNewVersion 1 1 (Some 7) 13; PMerge 1 [2; 3] 14];
               [PCommit 1 2; PMerge 1 [2; 2] 15; PCommit 1 3; PMerge 1 [3; 2] 17];
               [PNewVersion 1 2 (Some 8) 18; PNewData 1 5]] in
  match hrun_segs r_conf (init_mgr r_conf) [] (apply_ws empty_image (init_writes r_conf)) segs with
  | Ok (mf, hcf, _) =>
    let '(m', hc', _) := hrun_img r_conf (init_mgr r_conf) [] (apply_ws empty_image (init_writes r_conf)) (concat segs) in
    pobserve mf = pobserve m' /\ map (cached_head hcf 1) [0; 7; 8] = [Some 4; Some 3; Some 5] /\
    map (cached_head hc' 1) [0; 7; 8] = [Some 4; Some 3; Some 5]
  | _ => False
  end.
Proof. exact segs_example. Qed.
Print Assumptions C03_restarts_interleaved_example.

(* The code as it stood: heads recomputed from LEAVES on load vs the live map kept by newRepo and
   newVersion ([live_head] / [rebuilt_head]). *)
(* A merge node carries branch "" and the live map is not told about it; its parents stop being
   leaves.  Running server: master -> node 2; after a restart: master -> node 4 (known finding). *)
Theorem C03_branch_heads_merge_refuted :
  let '(m, img) := r_run [PNewRepo 11; PCommit 1 1; PNewVersion 1 1 None 12; PNewVersion 1 1 (Some 7) 13;
                          PCommit 1 2; PCommit 1 3; PMerge 1 [2; 3] 14] in
  live_head m 1 0 = Some 2 /\ rebuilt_head r_conf img 1 0 = Some 4.
Proof. exact heads_merge_refuted. Qed.
Print Assumptions C03_branch_heads_merge_refuted.

(* The same without any merge: a committed root whose only child is on another branch. *)
Theorem C03_branch_heads_fork_refuted :
  let '(m, img) := r_run [PNewRepo 11; PCommit 1 1; PNewVersion 1 1 (Some 7) 12] in
  live_head m 1 0 = Some 1 /\ rebuilt_head r_conf img 1 0 = None.
Proof. exact heads_fork_refuted. Qed.
Print Assumptions C03_branch_heads_fork_refuted.

(* Merging two side branches gives master TWO leaves (nodes 2 and 5): which one a restarted server
   calls the head depends on Go's map iteration order. *)
Theorem C03_master_two_leaves_refuted :
  let '(m, img) := r_run [PNewRepo 11; PCommit 1 1; PNewVersion 1 1 None 12; PNewVersion 1 1 (Some 7) 13;
                          PNewVersion 1 1 (Some 8) 14; PCommit 1 3; PCommit 1 4; PMerge 1 [3; 4] 15] in
  match aget 1 (m_repos m) with
  | Some r => branch_leaves r 0 = [2; 5] /\ live_head m 1 0 = Some 2
  | None => False
  end.
Proof. exact heads_two_master_leaves. Qed.
Print Assumptions C03_master_two_leaves_refuted.

(* _partial: when every branch's last node is a leaf the rebuilt heads are the live ones; the general
   statement needs C07's chain invariant and is not proved here; the model is evaluated on every
   generated history, e.g.: *)
Theorem C03_branch_heads_example :
  let '(m, img) := r_run [PNewRepo 11; PCommit 1 1; PNewVersion 1 1 None 12; PNewVersion 1 1 (Some 7) 13;
                          PCommit 1 3; PNewVersion 1 3 None 14; PCommit 1 2; PNewVersion 1 2 None 15;
                          PNewVersion 1 2 (Some 9) 16] in
  forallb (fun br => match live_head m 1 br, rebuilt_head r_conf img 1 br with
                     | Some a, Some b => a =? b | None, None => true | _, _ => false end) [0; 7; 9; 5] = true.
Proof. exact heads_example_no_merge. Qed.
Print Assumptions C03_branch_heads_example.

(* ---- label mapping and split records replayed from the mutation log ---- *)
(* With each supervoxel split logged once (repo_patches/C03-1-fix.diff): for every history of
   merges, cleaves and supervoxel splits whose new labels are new (op_ok; C12), replaying the log
   rebuilds the live mapping function and the live split record list. *)
Theorem C03_maplog_replay_fixed : forall ops, forallb op_ok ops = true ->
  map_eq (replay mp_empty (snd (run_ops false mp_empty ops))) (fst (run_ops false mp_empty ops)) /\
  mp_splits (replay mp_empty (snd (run_ops false mp_empty ops))) = mp_splits (fst (run_ops false mp_empty ops)).
Proof. exact maplog_replay_fixed. Qed.
Print Assumptions C03_maplog_replay_fixed.

(* As the code stood (split logged twice): the mapping function is still rebuilt (_partial) ... *)
Theorem C03_maplog_replay_partial : forall ops, forallb op_ok ops = true ->
  map_eq (replay mp_empty (snd (run_ops true mp_empty ops))) (fst (run_ops true mp_empty ops)).
Proof. exact maplog_replay_mapping. Qed.
Print Assumptions C03_maplog_replay_partial.

(* ... the split record list is not. *)
Theorem C03_maplog_replay_refuted :
  let ops := [OMerge 5 10 [11; 12]; OSvSplit 7 11 21 22] in
  forallb op_ok ops = true /\
  mp_splits (fst (run_ops true mp_empty ops)) = [(7, 11, 21, 22)] /\
  mp_splits (replay mp_empty (snd (run_ops true mp_empty ops))) = [(7, 11, 21, 22); (7, 11, 21, 22)].
Proof. exact maplog_replay_refuted. Qed.
Print Assumptions C03_maplog_replay_refuted.

(* Round 4, a DAG of versions (Model.MapLogV): mutations carry their version, a version's entries
   and log are its own, lookups go to the nearest ancestor that wrote, a new version sees its
   ancestors'.  For EVERY ancestry table (any DAG), every history of merges, cleaves and supervoxel
   splits (op_ok) at any versions in any interleaving, each split logged once: the family start-up
   replays from the per-version logs answers, through ANY ancestry, every supervoxel's label and the
   split record list (GET supervoxel-splits) exactly as the running server's. *)
Theorem C03_maplog_replay_versions : forall ancs ops, forallb (fun vo => op_ok (snd vo)) ops = true ->
  let '(st, lg) := vrun false ancs ([], []) ops in
  forall anc, (forall sv, vmapped (vreplay lg) anc sv = vmapped st anc sv) /\ vsplits (vreplay lg) anc = vsplits st anc.
Proof. exact vmaplog_replay. Qed.
Print Assumptions C03_maplog_replay_versions.

(* as the code stood (split logged twice) the labels are rebuilt at every version all the same *)
Theorem C03_maplog_replay_versions_partial : forall ancs ops, forallb (fun vo => op_ok (snd vo)) ops = true ->
  let '(st, lg) := vrun true ancs ([], []) ops in
  forall anc sv, vmapped (vreplay lg) anc sv = vmapped st anc sv.
Proof. exact vmaplog_replay_mapping. Qed.
Print Assumptions C03_maplog_replay_versions_partial.

(* non-vacuity and the shape of the answers: chain 1 <- 2 <- 3 and a sibling 4 of 3 *)
Example C03_maplog_versions_example :
  forallb (fun vo => op_ok (snd vo)) vx_ops = true /\
  let '(st, lg) := vrun false vx_ancs ([], []) vx_ops in
  map (vmapped st [3; 2; 1]) [11; 12; 21; 22; 23] = [0; 30; 10; 10; 23] /\
  map (vmapped (vreplay lg) [3; 2; 1]) [11; 12; 21; 22; 23] = [0; 30; 10; 10; 23] /\
  map (vmapped st [4; 2; 1]) [11; 12; 21; 23; 24] = [0; 0; 10; 10; 10] /\
  vsplits st [4; 2; 1] = [(9, 12, 23, 24); (7, 11, 21, 22)] /\
  vsplits (vreplay lg) [4; 2; 1] = [(9, 12, 23, 24); (7, 11, 21, 22)] /\
  vsplits st [3; 2; 1] = [(7, 11, 21, 22)] /\ vsplits st [1] = [].
Proof. exact vmaplog_example. Qed.
Print Assumptions C03_maplog_versions_example.

(* ... and with any number of restarts between the mutations (vseg_go: each restart replaces the live
   family by the replayed logs): the same logs and, version by version, the same labels and split
   records as the uninterrupted run of all the mutations (vsame); what a client reads through any
   ancestry is then the same (C03_maplog_vsame_observable). *)
Theorem C03_maplog_restarts_interleaved : forall ancs segs,
  forallb (fun ops => forallb (fun vo => op_ok (snd vo)) ops) segs = true ->
  vsame (vseg_go false ancs ([], []) segs) (vrun false ancs ([], []) (concat segs)).
Proof. exact vsegs_refine_init. Qed.
Print Assumptions C03_maplog_restarts_interleaved.

Theorem C03_maplog_vsame_observable : forall a b anc, vsame a b ->
  (forall sv, vmapped (fst a) anc sv = vmapped (fst b) anc sv) /\ vsplits (fst a) anc = vsplits (fst b) anc.
Proof. exact vsame_obs. Qed.
Print Assumptions C03_maplog_vsame_observable.

Example C03_maplog_restarts_example :
  forallb (fun ops => forallb (fun vo => op_ok (snd vo)) ops) vx_segs = true /\ concat vx_segs = vx_ops /\
  vsplits (fst (vseg_go false vx_ancs ([], []) vx_segs)) [4; 2; 1] = [(9, 12, 23, 24); (7, 11, 21, 22)] /\
  map (vmapped (fst (vseg_go false vx_ancs ([], []) vx_segs)) [3; 2; 1]) [11; 12; 21; 22; 23] = [0; 30; 10; 10; 23].
Proof. exact vsegs_example. Qed.
Print Assumptions C03_maplog_restarts_example.

(* ---- reloaded label maxima ---- *)
Theorem C03_maxlabel_reload : forall s, l_pmaxrepo s = Some (l_maxrepo s) ->
  (forall v x, In (v, x) (l_pmaxv s) -> x <= l_maxrepo s) ->
  l_maxrepo (l_load (l_down s)) = l_maxrepo s.
Proof. exact maxlabel_reload. Qed.
Print Assumptions C03_maxlabel_reload.

(* A new instance records its maximum at creation (repo_patches/C03-2-fix.diff) and reloads as it was. *)
Theorem C03_maxlabel_reload_fresh : l_maxrepo (l_load (l_down l_fresh)) = l_maxrepo l_fresh.
Proof. exact maxlabel_reload_fresh. Qed.
Print Assumptions C03_maxlabel_reload_fresh.

(* As the code stood, a labelmap that never persisted a label answered next label 1 before and
   10000000001 after a restart. *)
Theorem C03_maxlabel_reload_refuted :
  l_maxrepo l_fresh_unrepaired = 0 /\ l_maxrepo (l_load (l_down l_fresh_unrepaired)) = very_large_label.
Proof. exact maxlabel_reload_refuted. Qed.
Print Assumptions C03_maxlabel_reload_refuted.
