(* C11 — Concurrent acknowledged mutations are never lost or half applied.
   Only statements, each closed by [exact] of a lemma proved in Proofs/, Print Assumptions,
   and Examples showing the hypotheses are inhabited.

   Scope of the model (Model/Conc.v): requests are lists of atomic actions
   (Read / Write / Lock / Unlock / RLock / RUnlock / Ack) over an abstract store; a schedule is
   any interleaving the mutex semantics accept.  Preemption inside an action, the Go memory
   model and badger's transaction isolation are outside the model. *)
From DV Require Import Base.Prelude Model.Conc Gen.Locks Model.ConcRun Proofs.Conc Proofs.ConcRun.
From Coq Require Import String Permutation.
Import List ListNotations.
Local Open Scope string_scope.
Local Open Scope list_scope.

(* For every value type, every number of requests of any length, every initial store and EVERY
   schedule the mutex semantics accept and that runs all requests to their end: if every request
   takes the one mutex [mu] exclusively before its first access to the store and releases it after
   its last one, the final store is the store obtained by running the requests one after the other
   in the order in which they acquired [mu], and that order is a permutation of all requests. *)
Theorem C11_serializable_if_covered :
  forall (value : Type) (mu : mutex) (reqs : list (request value)) (s0 : store value)
         (sched : list nat) (s : state value),
    forallb (covered mu) reqs = true ->
    run_schedule sched (init reqs s0) = Some s ->
    all_done s = true ->
    exists rs,
      Forall2 (fun i r => nth_error reqs i = Some r) (acq_order mu s) rs /\
      Permutation (acq_order mu s) (seq 0 (List.length reqs)) /\
      st s = run_sequential rs s0.
Proof. exact serializable_if_covered_lemma. Qed.
Print Assumptions C11_serializable_if_covered.

(* At every point of every accepted schedule (complete or not): every request that has been
   acknowledged is among those that went through the critical section, and whenever the mutex is
   free the store is exactly the sequential run of those requests in acquisition order: no
   acknowledged write is missing and nothing is half applied. *)
Theorem C11_acked_writes_present :
  forall (value : Type) (mu : mutex) (reqs : list (request value)) (s0 : store value)
         (sched : list nat) (s : state value),
    forallb (covered mu) reqs = true ->
    run_schedule sched (init reqs s0) = Some s ->
    (forall i t, nth_error (thr s) i = Some t -> t_acked t = true -> In i (acq_order mu s)) /\
    (holds_any mu (held s) = false ->
     exists rs, Forall2 (fun i r => nth_error reqs i = Some r) (acq_order mu s) rs /\
                st s = run_sequential rs s0).
Proof. exact acked_writes_present_lemma. Qed.
Print Assumptions C11_acked_writes_present.

(* The generated lock table (Gen/Locks.v, rewritten from the Go source on every run): the
   syntactic dominance verdict of the translator equals the coverage computed by [covered] on the
   event list, for every site. *)
Theorem C11_generated_verdicts_agree : forallb verdicts_agree lock_table = true.
Proof. exact table_verdicts_agree. Qed.
Print Assumptions C11_generated_verdicts_agree.

(* keyvalue PutData / DeleteData (one badger transaction), labelmap CleaveLabel (cleaveIndex) and
   ChangeLabelIndex (indexMu shard), and — since the repairs C11-2-fix, C11-3-fix, C11-4-fix —
   datastore newVersion (m.versionMu), neuronjson storeAndUpdate (d.updateMu) and annotation
   StoreElements / DeleteElement / MoveElement (d.mutateMu) are covered in the current source.  Removing or moving one of these Lock / Unlock calls, or moving a store access out of
   the critical section, changes Gen/Locks.v and this statement stops computing to true. *)
Theorem C11_covered_sites : forallb named_site_covered expected_covered = true.
Proof. exact expected_covered_hold. Qed.
Print Assumptions C11_covered_sites.

(* Every Lock/RLock on an element of an array of mutexes (labelmap's indexMu shards; the table
   is regenerated from every function of the packages that hold the sites): all users of one array
   select the element by the same expression of the guarded id.  A site that computes the shard
   differently would not exclude the other critical sections on the same datum although each site,
   looked at alone, is "covered". *)
Theorem C11_shard_keys_agree : shard_keys_agree shard_keys = true.
Proof. exact generated_shard_keys_agree. Qed.
Print Assumptions C11_shard_keys_agree.

(* storage/badger: the versioned Put and Delete of one key are exactly one write transaction each,
   helper methods included (table badger_txns of Gen/Locks.v): what justifies modelling them as one
   critical section, and what makes "value and tombstone change together" hold under concurrency
   and under a crash. *)
Theorem C11_single_key_mutation_is_one_transaction : single_txn badger_txns = true.
Proof. exact generated_single_txn. Qed.
Print Assumptions C11_single_key_mutation_is_one_transaction.

(* The order in which MergeLabels and CleaveLabel write mapping and indices (table write_order of
   Gen/Locks.v) is the one their serialisability argument needs: see required_write_order. *)
Theorem C11_write_order : write_order_ok write_order = true.
Proof. exact generated_write_order_ok. Qed.
Print Assumptions C11_write_order.

(* At every site the checks that refuse a request are made in the critical section of the write
   they guard (table site_checks), up to the recorded exceptions of MergeLabels. *)
Theorem C11_validated_where_written : checks_ok site_checks = true.
Proof. exact generated_checks_ok. Qed.
Print Assumptions C11_validated_where_written.

(* Any number of concurrent requests, in any mix, at sites the table shows covered by the same
   mutex (for instance cleaves and label-index changes of one body): every accepted complete
   schedule equals the sequential run in acquisition order. *)
Theorem C11_covered_sites_serializable :
  forall (mu : string) (ids : list N) (sites : list gsite) (s0 : store val) (sched : list nat) (s : state val),
    Forall (fun x => site_cover x = Some mu) sites ->
    run_schedule sched (init (site_requests ids sites) s0) = Some s ->
    all_done s = true ->
    exists rs,
      Forall2 (fun i r => nth_error (site_requests ids sites) i = Some r) (acq_order mu s) rs /\
      Permutation (acq_order mu s) (seq 0 (List.length (site_requests ids sites))) /\
      st s = run_sequential rs s0.
Proof. exact covered_sites_serializable_lemma. Qed.
Print Assumptions C11_covered_sites_serializable.

(* Every site of the table that is NOT covered has a concrete two-request schedule — request 1
   runs k actions, request 2 runs to its end, request 1 finishes — that the mutex semantics accept
   and whose final store differs, on the site's locations, from both sequential orders. *)
Theorem C11_lost_update_refuted :
  forall s, In s lock_table -> site_cover s = None ->
    exists k fin,
      run_schedule (canon k (site_request 1 s) (site_request 2 s))
                   (init [site_request 1 s; site_request 2 s] empty_store) = Some fin /\
      all_done fin = true /\
      same_on (site_locs s) (st fin) (run_sequential [site_request 1 s; site_request 2 s] empty_store) = false /\
      same_on (site_locs s) (st fin) (run_sequential [site_request 2 s; site_request 1 s] empty_store) = false.
Proof. exact lost_update_refuted_lemma. Qed.
Print Assumptions C11_lost_update_refuted.

(* Every site is decided one way or the other. *)
Theorem C11_table_decided : forallb decided lock_table = true.
Proof. exact table_decided. Qed.
Print Assumptions C11_table_decided.

(* ---- non-vacuity (hand-written sites, independent of the generated table) ---- *)

(* three covered requests; an interleaving in which request 2 enters first, then 0, then 1 *)
Example C11_covered_example :
  let reqs := site_requests [10; 20; 30]%N [ex_locked; ex_locked; ex_locked] in
  forallb (covered "mu") reqs = true /\
  exists s, run_schedule [2;2;2;2;0;2;0;0;0;1;0;1;1;1;1]%nat (init reqs empty_store) = Some s /\
            all_done s = true /\ acq_order "mu" s = [2; 0; 1]%nat /\ st s "x" = [30; 10; 20]%N.
Proof. vm_compute. split; [reflexivity|]. eexists. repeat split. Qed.

(* a schedule that would put two requests inside the critical section is not accepted *)
Example C11_mutex_excludes :
  run_schedule [0;1]%nat (init (site_requests [1; 2]%N [ex_locked; ex_locked]) empty_store) = None.
Proof. vm_compute. reflexivity. Qed.

(* read under a shared lock, write under the exclusive one (the shape of MergeLabels): not covered,
   and the schedule "1 reads, 2 runs, 1 writes" loses request 2's update *)
Example C11_uncovered_example :
  site_cover ex_unlocked = None /\ lost_at ex_unlocked 3 = true /\
  (exists s, run_schedule (canon 3 (site_request 1 ex_unlocked) (site_request 2 ex_unlocked))
               (init [site_request 1 ex_unlocked; site_request 2 ex_unlocked] empty_store) = Some s /\
             st s "x" = [1]%N) /\
  run_sequential [site_request 1 ex_unlocked; site_request 2 ex_unlocked] empty_store "x" = [1; 2]%N.
Proof. vm_compute. repeat split. eexists. split; reflexivity. Qed.

(* the table has sites of both kinds in the current source *)
Example C11_table_has_covered_site : existsb site_covered lock_table = true.
Proof. vm_compute. reflexivity. Qed.

(* the two generated obligations are not vacuous and can fail *)
Example C11_shard_keys_nonempty :
  shard_keys <> [] /\
  shard_keys_agree [("f", "mu", "_ % n"); ("g", "mu", "(_ ^ (_ >> 32)) % n")] = false /\
  single_txn [("Put", 2, 1)]%nat = false /\ badger_txns <> [] /\
  write_order_ok [("labelmap.MergeLabels", ["target"; "merged"; "mapping"]);
                  ("labelmap.CleaveLabel", ["cleaved"; "target"; "mapping"])] = false /\
  checks_ok [("labelmap.CleaveLabel", "target", 3, 1)]%nat = false.
Proof. vm_compute. repeat split; discriminate. Qed.
