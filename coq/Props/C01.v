(* C01 — Versioned reads resolve to the nearest ancestor write in the version DAG.
   Statements only; proofs are in Proofs/Resolve.v and Proofs/Core.v. *)
From DV Require Import Base.Prelude Model.Dag Model.Resolve Model.Core Proofs.Resolve Proofs.ResolveSpec Proofs.Core.
From Coq Require Import Permutation.
Local Open Scope N_scope.

(* For every acyclic parent structure (any size, any number of parents per node, parents that
   are ancestors of one another), every placement of value / deletion / nothing and every
   queried version, the resolver returns: the one live entry of the frontier (entry-bearing
   ancestors-or-self of v with no entry-bearing proper descendant inside v's ancestry);
   not-found if the frontier has no live entry; an error if it has two. *)
Theorem C01_read_is_frontier_read :
  forall (par : V -> list V) (rank : V -> nat),
    (forall v p, In p (par v) -> (rank p < rank v)%nat) ->
  forall (ent : V -> option entry) (fi : nat), (forall x, (rank x < fi)%nat) ->
  forall (f : nat) (v : V), (rank v < f)%nat ->
    read_spec par ent v (read par ent fi f v).
Proof. exact read_correct. Qed.
Print Assumptions C01_read_is_frontier_read.

(* the specification determines the answer *)
Theorem C01_spec_deterministic :
  forall par ent v r1 r2, read_spec par ent v r1 -> read_spec par ent v r2 -> r1 = r2.
Proof. exact read_spec_det. Qed.
Print Assumptions C01_spec_deterministic.

(* The executable oracle with which the check judges the implementation's answers
   (Model.Resolve.frontier_read, computed from the definition of the frontier without the
   resolver) meets the same specification, hence equals the resolver. *)
Theorem C01_oracle_is_specification :
  forall (par : V -> list V) (rank : V -> nat),
    (forall v p, In p (par v) -> (rank p < rank v)%nat) ->
  forall (ent : V -> option entry) (fuel : nat), (forall x, (rank x <= fuel)%nat) ->
  forall v, read_spec par ent v (frontier_read par ent fuel v).
Proof. exact frontier_read_correct. Qed.
Print Assumptions C01_oracle_is_specification.

(* Writes at versions that are neither v nor an ancestor of v never affect the result. *)
Theorem C01_isolation :
  forall (par : V -> list V) (rank : V -> nat),
    (forall v p, In p (par v) -> (rank p < rank v)%nat) ->
  forall ent ent' fi f v, (forall x, (rank x < fi)%nat) -> (rank v < f)%nat ->
    (forall u, anc par u v -> ent u = ent' u) ->
    read par ent fi f v = read par ent' fi f v.
Proof. exact read_isolation. Qed.
Print Assumptions C01_isolation.

(* What was last written or deleted at v itself decides; a deletion hides every older value. *)
Theorem C01_entry_at_version_decides :
  forall (par : V -> list V) (rank : V -> nat),
    (forall v p, In p (par v) -> (rank p < rank v)%nat) ->
  forall ent fi f v e, (forall x, (rank x < fi)%nat) -> (rank v < f)%nat -> ent v = Some e ->
    read par ent fi f v = match e with Val x => RFound v x | Tomb => RNone end.
Proof. exact read_self. Qed.
Print Assumptions C01_entry_at_version_decides.

(* Failing that, along the ancestry: a version without an entry and with one parent reads
   what its parent reads. *)
Theorem C01_single_parent_inherits :
  forall (par : V -> list V) (rank : V -> nat),
    (forall v p, In p (par v) -> (rank p < rank v)%nat) ->
  forall ent fi f v p, (forall x, (rank x < fi)%nat) -> (rank v < f)%nat ->
    ent v = None -> par v = [p] ->
    read par ent fi f v = read par ent fi f p.
Proof. exact read_inherit. Qed.
Print Assumptions C01_single_parent_inherits.

(* Every order in which the store returns the per-version entries gives the same answer. *)
Theorem C01_order_independent :
  forall par rank keys keys' fi f v,
    (forall v p, In p (par v) -> (rank p < rank v)%nat) ->
    (forall x, (rank x < fi)%nat) -> (rank v < f)%nat ->
    NoDup (map fst keys) -> Permutation keys keys' ->
    read par (kvv_of keys) fi f v = read par (kvv_of keys') fi f v.
Proof. exact read_order_indep. Qed.
Print Assumptions C01_order_independent.

(* History level: after any sequence of put / delete / commit / branch / new-version / merge
   requests, a GET is the frontier read over the entries that history wrote. *)
Theorem C01_history_get :
  forall ops k v, read_spec (cpar (run ops core_init)) (ent_of (run ops core_init) k) v
                            (get (run ops core_init) k v).
Proof. intros ops k v. apply get_spec. apply core_inv_run. exact core_inv_init. Qed.
Print Assumptions C01_history_get.

Theorem C01_history_put_then_get :
  forall ops k v x, let c := run ops core_init in
    writable c v = true -> get (fst (step c (OPut k v x))) k v = RFound v x.
Proof. intros ops k v x c. apply put_get. apply core_inv_run. exact core_inv_init. Qed.
Print Assumptions C01_history_put_then_get.

Theorem C01_history_delete_then_get :
  forall ops k v, let c := run ops core_init in
    writable c v = true -> get (fst (step c (ODel k v))) k v = RNone.
Proof. intros ops k v c. apply del_get. apply core_inv_run. exact core_inv_init. Qed.
Print Assumptions C01_history_delete_then_get.

Theorem C01_history_unrelated_write_invisible :
  forall ops k v k' w e, let c := run ops core_init in
    (k <> k' \/ ~ anc (cpar c) w v) ->
    get {| next := next c; dag := dag c; nodes := nodes c; locked := locked c;
           store := ((k', w), e) :: store c |} k v = get c k v.
Proof. intros ops k v k' w e c. apply write_invisible. apply core_inv_run. exact core_inv_init. Qed.
Print Assumptions C01_history_unrelated_write_invisible.

(* whatever is done later, a committed version keeps reading what it read *)
Theorem C01_history_committed_reads_stable :
  forall ops later k v, let c := run ops core_init in
    In v (locked c) -> get (run later c) k v = get c k v.
Proof. intros ops later k v c. apply get_stable. apply core_inv_run. exact core_inv_init. Qed.
Print Assumptions C01_history_committed_reads_stable.

(* The resolver as it stood before the repair (fix: commit recorded in known_findings.json)
   violated the property: with parents [a; b; d], d a child of b deleting the key, it returned
   b's deleted value; and an inner merge in conflict aborted a read that a later parent resolves. *)
Definition w_g1 : dagl := [(2,[1]);(3,[1]);(4,[3]);(5,[2;3;4])].
Definition w_e1 := kvv_of [(1,Val 100);(2,Val 200);(3,Val 300);(4,Tomb)].
Definition w_g3 : dagl := [(2,[1]);(3,[1]);(4,[2;3]);(5,[2;3]);(6,[4;5])].
Definition w_e3 := kvv_of [(2,Val 200);(3,Val 300);(5,Val 500)].
Theorem C01_old_resolver_refuted :
  read_old (parents_of w_g1) w_e1 10 10 5 = RFound 3 300 /\
  read (parents_of w_g1) w_e1 10 10 5 = RFound 2 200 /\
  read_old (parents_of w_g3) w_e3 10 10 6 = RConflict /\
  read (parents_of w_g3) w_e3 10 10 6 = RFound 5 500.
Proof. vm_compute. repeat split. Qed.

(* Non-vacuity: a reachable history with a three-parent merge, a deletion on one lineage and
   an unresolved conflict elsewhere. *)
Definition ex_ops : list op :=
  [OPut 0 1 100; OCommit 1 true; OChild [1] true; OChild [1] true;          (* 2, 3 *)
   OPut 0 2 200; OPut 0 3 300; OCommit 2 true; OCommit 3 true;
   OChild [3] true; ODel 0 4; OCommit 4 true;                               (* 4 *)
   OChild [2;3;4] true;                                                     (* 5 *)
   OChild [2;3] true].                                                      (* 6 *)
Example C01_example :
  let c := run ex_ops core_init in
  get c 0 5 = RFound 2 200 /\ get c 0 6 = RConflict /\ get c 0 4 = RNone /\ get c 0 1 = RFound 1 100
  /\ In 3 (locked c) /\ writable c 5 = true.
Proof. vm_compute. repeat split; auto. Qed.
