(* C09 — The compressed label block codec is lossless and its views agree.
   Only statements, each closed by [exact] of a lemma proved in Proofs/, and Print Assumptions. *)
From DV Require Import Base.Prelude Base.Int Base.BitPack Model.Block Model.BlockViews
     Proofs.BitPack Proofs.Block Gen.Consts.
Local Open Scope N_scope.

(* MakeBlock then MakeLabelVolume: for every block size (gx,gy,gz sub-blocks per dimension, cubic
   or not), every label array of that size (any labels, any number per sub-block) and every
   label-table order the encoder may pick ([tbl]: any list containing the labels of the array),
   whenever the encoder returns a block, decoding it returns the array. *)
Theorem C09_decode_encode : forall tbl a gx gy gz b,
  length a = N.to_nat (8 * gx * (8 * gy) * (8 * gz)) ->
  (forall l, In l a -> In l tbl) ->
  encode tbl a gx gy gz = Ok b -> decode b = Ok a.
Proof. exact decode_encode. Qed.
Print Assumptions C09_decode_encode.

(* SubvolumeToBlock at any offset of any volume: the block decodes to the cropped array. *)
Theorem C09_subvolume_to_block : forall tbl vol wx wy wz ox oy oz gx gy gz sbs b,
  gather vol wx wy ox oy oz gx gy gz = Ok sbs -> covers tbl sbs ->
  encode_at tbl vol wx wy wz ox oy oz gx gy gz = Ok b ->
  exists a, crop vol wx wy ox oy oz gx gy gz = Ok a /\ decode b = Ok a.
Proof. exact decode_encode_at. Qed.
Print Assumptions C09_subvolume_to_block.
