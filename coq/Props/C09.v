(* C09 — The compressed label block codec is lossless and its views agree.
   Only statements, each closed by [exact] of a lemma proved in Proofs/, and Print Assumptions.

   Reading guide.  [encode_at tbl vol wx wy wz ox oy oz gx gy gz] is SubvolumeToBlock (setSubvolume +
   encodeBlock) on a volume of wx*wy*wz labels for the block of gx*gy*gz sub-blocks at offset
   (ox,oy,oz); [encode tbl a gx gy gz] is MakeBlock.  [tbl] is the block-level label table, whose
   order Go takes from map iteration: the theorems hold for EVERY table that contains the labels
   of the array ([covers]), in particular for every permutation of its distinct labels.
   [decode] is MakeLabelVolume, [value_at] Block.Value, [point_label] GetPointLabels,
   [write_rles true] the repaired WriteRLEs, [marshal]/[unmarshal] (Un)MarshalBinary. *)
From DV Require Import Base.Prelude Base.Int Base.BitPack Model.Block Model.BlockViews
     Proofs.BitPack Proofs.Block Proofs.BlockMarshal Proofs.BlockViews Proofs.Downres Proofs.BlockCount Proofs.BlockOps Proofs.BlockBinary Gen.Consts.
From DV Require Import Model.BlockOps.
Local Open Scope N_scope.

(* Bit packing: in a run of k-bit fields (k = 1..9, any number of fields filling whole bytes, as
   the 512 fields of a sub-block do) written by the encoder's shifts, getPackedValue at field i
   returns field i, wherever the run lies in SBValues. *)
Theorem C09_packed_fields : forall pre post k idxs i v,
  1 <= k <= 9 -> Forall (fun v => v < 2 ^ k) idxs ->
  ((N.to_nat k * length idxs) mod 8 = 0)%nat -> nth_error idxs i = Some v ->
  get_packed (pre ++ pack k idxs ++ post) (8 * N.of_nat (length pre) + N.of_nat i * k) k = Ok v.
Proof. exact get_pack. Qed.
Print Assumptions C09_packed_fields.

(* MakeBlock then MakeLabelVolume returns the array: every size, every label content (any 64-bit
   labels, 1..512 labels per sub-block), every table order.  (No size or label bound appears:
   whenever the encoder returns a block, it decodes to the input.) *)
Theorem C09_decode_encode : forall tbl a gx gy gz b,
  length a = N.to_nat (8 * gx * (8 * gy) * (8 * gz)) ->
  (forall l, In l a -> In l tbl) ->
  encode tbl a gx gy gz = Ok b -> decode b = Ok a.
Proof. exact decode_encode. Qed.
Print Assumptions C09_decode_encode.

(* SubvolumeToBlock at every offset of every volume = the cropped array. *)
Theorem C09_subvolume_to_block : forall tbl vol wx wy wz ox oy oz gx gy gz sbs b,
  gather vol wx wy ox oy oz gx gy gz = Ok sbs -> covers tbl sbs ->
  encode_at tbl vol wx wy wz ox oy oz gx gy gz = Ok b ->
  exists a, crop vol wx wy ox oy oz gx gy gz = Ok a /\ decode b = Ok a.
Proof. exact decode_encode_at. Qed.
Print Assumptions C09_subvolume_to_block.

(* The (repaired, repo_patches/C09-2-fix.diff) encoder returns a block for EVERY legal geometry —
   2..128 sub-blocks per dimension, cubic or not, odd or even number of sub-blocks, block inside the
   volume, fewer than 2^32-1 voxels — and every table containing the labels; with
   C09_subvolume_to_block it decodes to the array. *)
Theorem C09_encode_total : forall tbl vol wx wy wz ox oy oz gx gy gz,
  length vol = N.to_nat (wx * wy * wz) -> wx * wy * wz < 4294967295 ->
  2 <= gx <= 128 -> 2 <= gy <= 128 -> 2 <= gz <= 128 ->
  ox + 8 * gx <= wx -> oy + 8 * gy <= wy -> oz + 8 * gz <= wz ->
  exists sbs, gather vol wx wy ox oy oz gx gy gz = Ok sbs /\
    (covers tbl sbs -> exists b, encode_at tbl vol wx wy wz ox oy oz gx gy gz = Ok b).
Proof. exact encode_at_ok. Qed.
Print Assumptions C09_encode_total.

(* REFUTED for the code as found (SBIndices viewed through AliasByteToUint32 only): with an odd
   number of sub-blocks (24x24x24, 24x24x40, ...) and two or more labels no block is returned, for
   any array and table. *)
Theorem C09_odd_subblocks_refuted : forall tbl vol wx wy wz ox oy oz gx gy gz,
  N.odd (gx * gy * gz) = true -> (forall l, tbl <> [l]) ->
  forall b, encode_at_asfound tbl vol wx wy wz ox oy oz gx gy gz <> Ok b.
Proof. exact encode_odd_refused. Qed.
Print Assumptions C09_odd_subblocks_refuted.

(* Label at a point: Block.Value and GetPointLabels on the compressed block give the label the
   array has at that point (every point of the block). *)
Theorem C09_point_views : forall tbl vol wx wy wz ox oy oz gx gy gz sbs b x y z,
  gather vol wx wy ox oy oz gx gy gz = Ok sbs -> covers tbl sbs ->
  encode_at tbl vol wx wy wz ox oy oz gx gy gz = Ok b ->
  x < 8 * gx -> y < 8 * gy -> z < 8 * gz ->
  exists v, vol_at (rows wx vol) ((oz + z) * wy + (oy + y)) (ox + x) = Some v /\
            value_at b x y z = Ok v /\ point_label b x y z = Ok v.
Proof. exact value_at_encode. Qed.
Print Assumptions C09_point_views.

(* UnmarshalBinary (MarshalBinary b) = b for every well-formed block whose serialisation is
   shorter than 4 GiB, and encoder outputs are well-formed. *)
Theorem C09_unmarshal_marshal : forall b, marshal_wf b -> unmarshal (marshal b) = Ok b.
Proof. exact unmarshal_marshal. Qed.
Print Assumptions C09_unmarshal_marshal.

Theorem C09_encoded_blocks_marshal : forall tbl vol wx wy wz ox oy oz gx gy gz b,
  encode_at tbl vol wx wy wz ox oy oz gx gy gz = Ok b ->
  Forall (fun l => l < 2 ^ 64) tbl -> N.of_nat (length (marshal b)) < 2 ^ 32 ->
  marshal_wf b.
Proof. exact encode_marshal_wf. Qed.
Print Assumptions C09_encoded_blocks_marshal.

(* Run-length view (repaired WriteRLEs, one block at any block coordinate, negative included):
   the runs written from the compressed block are the maximal runs of the label set in the rows
   of the array.  Hypothesis: fewer than 2^32 value bits (Go keeps bit positions in uint32). *)
Theorem C09_rle_view : forall tbl vol wx wy wz ox oy oz gx gy gz sbs b a lbls bx by_ bz,
  gather vol wx wy ox oy oz gx gy gz = Ok sbs -> covers tbl sbs ->
  encode_at tbl vol wx wy wz ox oy oz gx gy gz = Ok b ->
  crop vol wx wy ox oy oz gx gy gz = Ok a ->
  8 * N.of_nat (length (b_vals b)) < 2 ^ 32 ->
  write_rles true b lbls bx by_ bz = rles_ref a gx gy gz lbls bx by_ bz.
Proof. exact write_rles_encode. Qed.
Print Assumptions C09_rle_view.

(* REFUTED for the code as found (vz % 8 on DVID coordinates): a two-label 16^3 block at block
   coordinate (-1,-1,-1) makes writeRLEs index SBValues out of range; repaired by
   repo_patches/C09-1-fix.diff, for which C09_rle_view is the theorem. *)
Theorem C09_rle_unrepaired_refuted :
  encode_canon rle_witness_array 16 16 16 0 0 0 2 2 2 = Ok rle_witness_block /\
  decode rle_witness_block = Ok rle_witness_array /\
  write_rles false rle_witness_block [7] (-1) (-1) (-1) = Panic /\
  write_rles true rle_witness_block [7] (-1) (-1) (-1) = Ok [((-16)%Z, (-15)%Z, (-7)%Z, 3)] /\
  rles_ref rle_witness_array 2 2 2 [7] (-1) (-1) (-1) = Ok [((-16)%Z, (-15)%Z, (-7)%Z, 3)].
Proof. exact write_rles_unrepaired_panics. Qed.
Print Assumptions C09_rle_unrepaired_refuted.

(* Counts view: CalcNumLabels(nil) on the compressed block is a duplicate-free map without a 0 key
   that gives, for every non-zero label, the number of voxels of the decoded array with that label
   (the ZYX array is a permutation of the concatenated sub-blocks: Proofs.BlockCount.assemble_perm). *)
Theorem C09_counts_view : forall tbl vol wx wy wz ox oy oz gx gy gz sbs b a,
  gather vol wx wy ox oy oz gx gy gz = Ok sbs -> covers tbl sbs ->
  encode_at tbl vol wx wy wz ox oy oz gx gy gz = Ok b -> decode b = Ok a ->
  exists d, calc_num_labels b = Ok d /\ NoDup (map fst d) /\ (forall e, In e d -> fst e <> 0) /\
    forall l, l <> 0 -> lookup d l = count_eq a l.
Proof. exact calc_num_labels_encode. Qed.
Print Assumptions C09_counts_view.

(* Binary-block view: what BinaryBlock.Read returns for the bytes WriteBinaryBlocks wrote for one
   block (any block coordinate) is the block's geometry, the main label, and the mask "label is in
   the set" of the decoded array — for every well-formed block with a duplicate-free label table
   (every encoder output with a duplicate-free table, via C10_encoded_blocks_wf) and duplicate-free
   label set.  (With duplicate table slots WriteBinaryBlocks stops collecting slots early; see notes.) *)
Theorem C09_binary_view : forall b voxs a main lbls bx by_ bz o,
  block_wf b voxs -> NoDup (b_labels b) -> NoDup lbls -> decode b = Ok a ->
  b_gx b < 2 ^ 32 -> b_gy b < 2 ^ 32 -> b_gz b < 2 ^ 32 -> main < 2 ^ 64 ->
  write_binary b main lbls bx by_ bz = Ok o -> o <> [] ->
  exists off, read_binary o = Ok (b_gx b, b_gy b, b_gz b, main, off, map (fun v => mem v lbls) a).
Proof. exact read_write_binary. Qed.
Print Assumptions C09_binary_view.

(* Non-vacuity: a concrete 16x16x16 array with two labels in one sub-block is encoded, decodes
   to itself, and the canonical table covers it (C09_rle_unrepaired_refuted, first two conjuncts);
   the hypotheses of C09_encode_total are met by it. *)
Example C09_concrete_geometry :
  length rle_witness_array = N.to_nat (16 * 16 * 16) /\ 16 * 16 * 16 < 4294967295 /\
  N.odd (2 * 2 * 2) = false.
Proof. vm_compute. repeat split. Qed.
