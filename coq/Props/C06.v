(* C06 — Storage keys isolate data instances, data and versions.
   Only statements, each closed by [exact] of a lemma proved in Base/ or Proofs/, and Print Assumptions.
   Ids range over the full 32 bits ([id_ok x] is x < 2^32), TKeys over all byte strings. *)
From DV Require Import Base.Prelude Base.Int Base.Lex Base.KeyShape Gen.Consts Gen.KeyLits Gen.KeyClasses
     Model.Keys Model.KV Proofs.Keys Proofs.KV.
Local Open Scope N_scope.

(* ---- 1. parse . construct recovers every component ---- *)
Theorem C06_parse_tkey : forall i tk v c m, tkey_from_key (Some (data_key i tk v c m)) = Ok tk.
Proof. exact tkey_from_data_key. Qed.
Print Assumptions C06_parse_tkey.

Theorem C06_parse_ids : forall i tk v c m, id_ok i -> id_ok v -> id_ok c ->
  data_key_to_local_ids (data_key i tk v c m) = Ok (i, v, c).
Proof. exact local_ids_of_data_key. Qed.
Print Assumptions C06_parse_ids.

Theorem C06_parse_version : forall i tk v c m, id_ok v -> version_from_key (Some (data_key i tk v c m)) = Ok v.
Proof. exact version_of_data_key. Qed.
Print Assumptions C06_parse_version.

Theorem C06_parse_marker : forall i tk v c m, is_tombstone (data_key i tk v c m) = (m =? n_MarkTombstone).
Proof. exact marker_of_data_key. Qed.
Print Assumptions C06_parse_marker.

Theorem C06_update_key : forall i tk v c m i' v' c',
  update_data_key (data_key i tk v c m) i' v' c' = Ok (data_key i' tk v' c' m).
Proof. exact update_of_data_key. Qed.
Print Assumptions C06_update_key.

(* ---- 2. distinct components never share a storage key ---- *)
Theorem C06_construct_injective : forall i tk v c m i' tk' v' c' m',
  id_ok i -> id_ok v -> id_ok c -> id_ok i' -> id_ok v' -> id_ok c' ->
  data_key i tk v c m = data_key i' tk' v' c' m' ->
  i = i' /\ tk = tk' /\ v = v' /\ c = c' /\ m = m'.
Proof. exact data_key_inj. Qed.
Print Assumptions C06_construct_injective.

Theorem C06_key_spaces_disjoint : forall i tk v c m t b,
  data_key i tk v c m <> metadata_key t /\ data_key i tk v c m <> blob_key b /\ metadata_key t <> blob_key b.
Proof. exact key_spaces_disjoint. Qed.
Print Assumptions C06_key_spaces_disjoint.

(* ---- 3. bytes.Compare on keys = lexicographic order on (instance, TKey, version, client, marker),
        for TKeys that are equal or not prefix related; the instance alone decides between instances ---- *)
Theorem C06_key_order : forall i tk v c m i' tk' v' c' m',
  id_ok i -> id_ok v -> id_ok c -> id_ok i' -> id_ok v' -> id_ok c' ->
  prefix_free_pair tk tk' ->
  lex_compare (data_key i tk v c m) (data_key i' tk' v' c' m') = tuple_compare i tk v c m i' tk' v' c' m'.
Proof. exact key_order. Qed.
Print Assumptions C06_key_order.

Theorem C06_key_order_instances : forall i tk v c m i' tk' v' c' m',
  id_ok i -> id_ok i' -> i <> i' ->
  lex_compare (data_key i tk v c m) (data_key i' tk' v' c' m') = (i ?= i').
Proof. exact key_order_instances. Qed.
Print Assumptions C06_key_order_instances.

(* ---- 4. all versions of one TKey are contiguous: [MinVersionKey tk, MaxVersionKey tk] holds every
        entry of tk and, among prefix-free TKeys, nothing else ---- *)
Theorem C06_versions_inside : forall i tk v c m,
  id_ok i -> id_ok v -> id_ok c -> byte_ok m ->
  in_range (min_version_key i tk) (max_version_key i tk) (data_key i tk v c m).
Proof. exact versions_between. Qed.
Print Assumptions C06_versions_inside.

Theorem C06_versions_only : forall i tk i' tk' v c m,
  id_ok i -> id_ok i' -> id_ok v -> id_ok c -> prefix_free_pair tk tk' ->
  in_range (min_version_key i tk) (max_version_key i tk) (data_key i' tk' v c m) -> i' = i /\ tk' = tk.
Proof. exact between_versions. Qed.
Print Assumptions C06_versions_only.

(* prefix-related TKeys break it: an entry of keyvalue key "a\000b" lies between the bounds of "a" *)
Theorem C06_versions_contiguous_refuted : exists tk tk',
  tk <> tk' /\ in_rangeb (min_version_key 1 tk) (max_version_key 1 tk) (construct_data_key 1 1 0 tk') = true.
Proof. exists (kv_tkey [97]), (kv_tkey [97; 0; 98]). exact versions_contiguous_refuted_witness. Qed.

(* ---- 5. instance ranges ---- *)
(* KeyRange / DataInstanceKeyRange as in the source: exact for every id below the maximum ... *)
Theorem C06_instance_range : forall i i' tk v c m,
  i < 2 ^ 32 - 1 -> id_ok i' ->
  (in_range (fst (key_range i)) (snd (key_range i)) (data_key i' tk v c m) <-> i' = i).
Proof. exact instance_range. Qed.
Print Assumptions C06_instance_range.

(* ... and empty at i = 2^32-1, where id++ wraps to 0.  That id is reachable: "instance_id_start"
   of the server configuration sets the counter, and the "random" generator draws any uint32. *)
Theorem C06_instance_range_max_refuted : forall k,
  ~ in_range (fst (key_range (2 ^ 32 - 1))) (snd (key_range (2 ^ 32 - 1))) k.
Proof. exact instance_range_max_empty. Qed.
Print Assumptions C06_instance_range_max_refuted.

(* with repo_patches/C06-3-fix the range is right for every id: it holds all keys under the
   instance's head and no well-formed key of another instance *)
Theorem C06_instance_range_fixed_own : forall i k, id_ok i -> of_instance i k = true ->
  in_rangeb (fst (key_range_fixed i)) (snd (key_range_fixed i)) k = true.
Proof. exact key_range_fixed_own. Qed.
Print Assumptions C06_instance_range_fixed_own.

Theorem C06_instance_range_fixed_other : forall i j k,
  id_ok i -> id_ok j -> i <> j -> key_wf k -> of_instance j k = true ->
  in_rangeb (fst (key_range_fixed i)) (snd (key_range_fixed i)) k = false.
Proof. exact key_range_fixed_other. Qed.
Print Assumptions C06_instance_range_fixed_other.

Theorem C06_class_range : forall i cls i' cls' body v c m,
  id_ok i -> id_ok i' -> byte_ok cls -> byte_ok cls' ->
  (in_range (fst (tkey_class_range i cls)) (snd (tkey_class_range i cls))
            (data_key i' (new_tkey cls' body) v c m) <-> (i' = i /\ cls' = cls)).
Proof. exact class_range. Qed.
Print Assumptions C06_class_range.

Theorem C06_delete_all_versioned_range : forall i i' cls body v c m,
  id_ok i -> id_ok i' -> byte_ok cls ->
  (in_range (fst (delete_all_range_versioned i)) (snd (delete_all_range_versioned i))
            (data_key i' (new_tkey cls body) v c m) <-> i' = i).
Proof. exact delete_all_versioned_range. Qed.
Print Assumptions C06_delete_all_versioned_range.

(* ---- 6. every datatype's TKeys are prefix free (fixed length, or terminator not inside) ---- *)
Theorem C06_tkey_prefix_free_keyvalue : forall tk1 tk2,
  wf_tkey keyclasses_keyvalue tk1 -> wf_tkey keyclasses_keyvalue tk2 -> prefix_free_pair tk1 tk2.
Proof. exact keyvalue_prefix_free. Qed.
Print Assumptions C06_tkey_prefix_free_keyvalue.
Theorem C06_tkey_prefix_free_neuronjson : forall tk1 tk2,
  wf_tkey keyclasses_neuronjson tk1 -> wf_tkey keyclasses_neuronjson tk2 -> prefix_free_pair tk1 tk2.
Proof. exact neuronjson_prefix_free. Qed.
Print Assumptions C06_tkey_prefix_free_neuronjson.
Theorem C06_tkey_prefix_free_annotation : forall tk1 tk2,
  wf_tkey keyclasses_annotation tk1 -> wf_tkey keyclasses_annotation tk2 -> prefix_free_pair tk1 tk2.
Proof. exact annotation_prefix_free. Qed.
Print Assumptions C06_tkey_prefix_free_annotation.
Theorem C06_tkey_prefix_free_labelmap : forall tk1 tk2,
  wf_tkey keyclasses_labelmap tk1 -> wf_tkey keyclasses_labelmap tk2 -> prefix_free_pair tk1 tk2.
Proof. exact labelmap_prefix_free. Qed.
Print Assumptions C06_tkey_prefix_free_labelmap.

(* the three string classes (keyvalue keys, neuronjson keys, annotation tags) end in byte 0 and are
   NOT prefix free once the string may contain byte 0: "a" and "a\000b" *)
Theorem C06_tkey_prefix_free_refuted : forall kc, kc_shape kc = KTerm 0 ->
  tkey_of kc [97] <> tkey_of kc [97; 0; 98] /\ is_prefix (tkey_of kc [97]) (tkey_of kc [97; 0; 98]).
Proof. exact terminated_class_refuted_witness. Qed.
Print Assumptions C06_tkey_prefix_free_refuted.

Theorem C06_decode_tkey : forall kc t s, kc_shape kc = KTerm t -> s <> [] ->
  decode_term_tkey kc (tkey_of kc s) = Ok s.
Proof. exact decode_term_tkey_of. Qed.
Print Assumptions C06_decode_tkey.

(* ---- 7. point reads look at exactly the entries of their own TKey (repo_patches/C06-2-fix),
        for ALL TKeys, prefix related or not ---- *)
Theorem C06_point_read_exact : forall i tk s, sorted s ->
  get_key_versions_exact i tk s = entries_of i tk s.
Proof. exact get_key_versions_exact_spec. Qed.
Print Assumptions C06_point_read_exact.

Theorem C06_point_read_exact_sound : forall i tk i' tk' v c m, id_ok i -> id_ok i' ->
  prefixb (unversioned_prefix i tk) (data_key i' tk' v c m) = true ->
  length (data_key i' tk' v c m) = (length (unversioned_prefix i tk) + suffix_size)%nat ->
  i' = i /\ tk' = tk.
Proof. exact exact_entry_is_own. Qed.
Print Assumptions C06_point_read_exact_sound.

Theorem C06_point_read_exact_complete : forall i tk v c m,
  prefixb (unversioned_prefix i tk) (data_key i tk v c m) = true /\
  length (data_key i tk v c m) = (length (unversioned_prefix i tk) + suffix_size)%nat.
Proof. exact own_entry_is_exact. Qed.
Print Assumptions C06_point_read_exact_complete.

(* where every neighbour under the prefix is an entry of the TKey itself, the repair changes nothing *)
Theorem C06_point_read_fix_is_noop_when_prefix_free : forall i tk s, sorted s ->
  (forall k, In k (map fst s) -> prefixb (unversioned_prefix i tk) k = true -> exists v c m, k = data_key i tk v c m) ->
  get_key_versions_exact i tk s = get_key_versions i tk s.
Proof. exact exact_noop. Qed.
Print Assumptions C06_point_read_fix_is_noop_when_prefix_free.

(* the prefix scan of the unrepaired code also returns the entry of "a\000b" for key "a" *)
Theorem C06_point_read_unrepaired_refuted :
  sorted wit_nul_store /\
  get_key_versions 1 (kv_tkey [97]) wit_nul_store
    = [construct_data_key 1 1 0 (kv_tkey [97]); construct_data_key 1 1 0 (kv_tkey [97; 0; 98])] /\
  get_key_versions_exact 1 (kv_tkey [97]) wit_nul_store = [construct_data_key 1 1 0 (kv_tkey [97])].
Proof. exact get_key_versions_inexact_witness. Qed.

(* ---- 8. histories: whatever is done to instance A — puts, deletes, batches, DeleteAll, dropping
        it — everything stored under another instance B stays as it was, and with it everything a
        request to B reads (the key versions of any TKey, any stored value, any scan inside B) ---- *)
Theorem C06_instance_isolation : forall iA iB ops s,
  id_ok iA -> id_ok iB -> iA <> iB -> sorted s /\ store_wf s ->
  instance_slice iB (apply_iops iA ops s) = instance_slice iB s.
Proof.
  intros iA iB ops s HA HB NE Inv.
  exact (proj1 (apply_iops_other iA iB HA HB NE ops s Inv)).
Qed.
Print Assumptions C06_instance_isolation.

Theorem C06_reads_depend_on_slice_only :
  (forall i tk s, sorted s -> get_key_versions i tk s = get_key_versions i tk (instance_slice i s)) /\
  (forall i k s, sorted s -> of_instance i k = true -> kv_get k s = kv_get k (instance_slice i s)) /\
  (forall i lo hi s, sorted s -> (forall k, in_rangeb lo hi k = true -> of_instance i k = true) ->
                     scan lo hi s = scan lo hi (instance_slice i s)).
Proof. exact (conj get_key_versions_slice (conj kv_get_slice scan_slice)). Qed.
Print Assumptions C06_reads_depend_on_slice_only.

(* dropping an instance removes all of it, for every id (with C06-1-fix and C06-3-fix) *)
Theorem C06_delete_instance_complete : forall i s, id_ok i -> sorted s ->
  instance_slice i (delete_data_instance i s) = [].
Proof. exact delete_data_instance_complete. Qed.
Print Assumptions C06_delete_instance_complete.

(* without C06-3-fix nothing of instance 2^32-1 is deleted *)
Theorem C06_delete_instance_max_refuted : forall s, sorted s -> delete_data_instance_wrapping (2 ^ 32 - 1) s = s.
Proof. exact delete_data_instance_wrapping_max. Qed.
Print Assumptions C06_delete_instance_max_refuted.

(* without C06-1-fix DeleteAll queues aliases of the iterator's key buffer: dropping instance 1
   deletes the entries of instance 2 and keeps its own (replayed on the real code by driver c06) *)
Theorem C06_delete_all_unrepaired_refuted :
  sorted wit_store /\
  delete_all_aliased (delete_all_range_unversioned_fixed 1) wit_store = Some [(wit_key 1 1, [11]); (wit_key 1 8, [12])] /\
  delete_data_instance 1 wit_store = [(wit_key 2 1, [21]); (wit_key 2 8, [22])].
Proof. exact delete_all_aliased_witness. Qed.

(* ---- 9. a newly created instance is empty: while the uint32 counter has not wrapped, ids are
        handed out in strictly increasing order, operations only reach instances created before,
        so nothing is stored under an id that has not been handed out ---- *)
Theorem C06_fresh_instance_empty : forall m m',
  mgr_inv m -> mgr_step m MNew = Some m' ->
  exists id, m_taken m' = id :: m_taken m /\ id = m_next m /\
             (forall t, In t (m_taken m) -> t < id) /\ instance_slice id (m_store m') = [].
Proof. exact mgr_new_fresh. Qed.
Print Assumptions C06_fresh_instance_empty.

Theorem C06_manager_invariant : forall ops m m',
  mgr_inv m -> mgr_run m ops = Some m' ->
  (forall k mk, mgr_run m (firstn k ops) = Some mk -> m_next mk <> 0 \/ k = 0%nat) ->
  mgr_inv m'.
Proof. exact mgr_run_inv. Qed.
Print Assumptions C06_manager_invariant.

(* at the wrap the counter restarts at 0: ids stop increasing (emptiness of new instances then
   rests on deletion being complete, C06_delete_instance_complete) *)
Theorem C06_ids_increase_refuted :
  new_instance_id 1 (2 ^ 32 - 1) [] = Some (2 ^ 32 - 1, 0) /\ new_instance_id 1 0 [] = Some (0, 1).
Proof. exact new_instance_id_wraps. Qed.

(* a restart keeps the counter (the invariant survives MRestart: C06_manager_invariant covers it);
   recomputing it from the instances still listed (seeded change C06-r2m1) hands out the id of an
   instance whose deletion was interrupted, together with its keys *)
Theorem C06_recomputed_counter_refuted :
  let m0 := {| m_next := 1; m_taken := []; m_store := [] |} in
  exists m1 m2 m3,
    mgr_run m0 [MNew; MNew; MOp 2 (IPut 1 0 [177; 1; 97; 0] [7])] = Some m1 /\
    mgr_step (restart_recomputed m1 [1]) MNew = Some m2 /\ instance_slice 2 (m_store m2) <> [] /\
    mgr_run m1 [MRestart [1]; MNew] = Some m3 /\ m_taken m3 = [3; 1] /\ instance_slice 3 (m_store m3) = [].
Proof. exact restart_recomputed_witness. Qed.

(* ---- non-vacuity ---- *)
Example C06_initial_manager_inv : forall start, 0 < start -> start < 2 ^ 32 ->
  mgr_inv {| m_next := start; m_taken := []; m_store := [] |}.
Proof.
  intros start H0 H1. repeat split; simpl; auto; try contradiction; try constructor.
Qed.

Example C06_concrete :
  construct_data_key 1 2 0 (kv_tkey [97])
    = [n_dataKeyPrefix; 0;0;0;1; kc_class kc_keyvalue_NewTKey; n_tkeyStandardByte; 97; 0; 0;0;0;2; 0;0;0;0; n_MarkData]
  /\ tombstone_key (2 ^ 32 - 1) (2 ^ 32 - 1) 0 []
    = [n_dataKeyPrefix; 255;255;255;255; 255;255;255;255; 0;0;0;0; n_MarkTombstone]
  /\ key_range 5 = ([n_dataKeyPrefix; 0;0;0;5], [n_dataKeyPrefix; 0;0;0;6])
  /\ key_range (2 ^ 32 - 1) = ([n_dataKeyPrefix; 255;255;255;255], [n_dataKeyPrefix; 0;0;0;0])
  /\ key_range_fixed (2 ^ 32 - 1) = ([n_dataKeyPrefix; 255;255;255;255], [n_dataKeyPrefix + 1])
  /\ wf_tkey keyclasses_keyvalue (kv_tkey [97])
  /\ prefix_free_pair (kv_tkey [97]) (kv_tkey [97; 98]).
Proof.
  repeat split; try (vm_compute; reflexivity).
  - exists kc_keyvalue_NewTKey, [97]. repeat split; [now left|]. simpl. intros [H|[]]. discriminate.
  - apply prefix_free_pairb_ok. vm_compute. reflexivity.
Qed.

(* ==== Round 4: every datatype's TKey constructors; SplitKey / MergeKey ==== *)

Theorem C06_tkey_prefix_free_imageblk : forall tk1 tk2,
  wf_tkey keyclasses_imageblk tk1 -> wf_tkey keyclasses_imageblk tk2 -> prefix_free_pair tk1 tk2.
Proof. exact imageblk_prefix_free. Qed.
Print Assumptions C06_tkey_prefix_free_imageblk.
Theorem C06_tkey_prefix_free_imagetile : forall tk1 tk2,
  wf_tkey keyclasses_imagetile tk1 -> wf_tkey keyclasses_imagetile tk2 -> prefix_free_pair tk1 tk2.
Proof. exact imagetile_prefix_free. Qed.
Print Assumptions C06_tkey_prefix_free_imagetile.
Theorem C06_tkey_prefix_free_labelarray : forall tk1 tk2,
  wf_tkey keyclasses_labelarray tk1 -> wf_tkey keyclasses_labelarray tk2 -> prefix_free_pair tk1 tk2.
Proof. exact labelarray_prefix_free. Qed.
Print Assumptions C06_tkey_prefix_free_labelarray.
Theorem C06_tkey_prefix_free_labelblk : forall tk1 tk2,
  wf_tkey keyclasses_labelblk tk1 -> wf_tkey keyclasses_labelblk tk2 -> prefix_free_pair tk1 tk2.
Proof. exact labelblk_prefix_free. Qed.
Print Assumptions C06_tkey_prefix_free_labelblk.
Theorem C06_tkey_prefix_free_labelsz : forall tk1 tk2,
  wf_tkey keyclasses_labelsz tk1 -> wf_tkey keyclasses_labelsz tk2 -> prefix_free_pair tk1 tk2.
Proof. exact labelsz_prefix_free. Qed.
Print Assumptions C06_tkey_prefix_free_labelsz.
Theorem C06_tkey_prefix_free_labelvol : forall tk1 tk2,
  wf_tkey keyclasses_labelvol tk1 -> wf_tkey keyclasses_labelvol tk2 -> prefix_free_pair tk1 tk2.
Proof. exact labelvol_prefix_free. Qed.
Print Assumptions C06_tkey_prefix_free_labelvol.
Theorem C06_tkey_prefix_free_roi : forall tk1 tk2,
  wf_tkey keyclasses_roi tk1 -> wf_tkey keyclasses_roi tk2 -> prefix_free_pair tk1 tk2.
Proof. exact roi_prefix_free. Qed.
Print Assumptions C06_tkey_prefix_free_roi.
(* one instance = one Extension *)
Theorem C06_tkey_prefix_free_tarsupervoxels : forall ext tk1 tk2,
  wf_tkey (keyclasses_tarsupervoxels ext) tk1 -> wf_tkey (keyclasses_tarsupervoxels ext) tk2 -> prefix_free_pair tk1 tk2.
Proof. exact tarsupervoxels_prefix_free. Qed.
Print Assumptions C06_tkey_prefix_free_tarsupervoxels.

(* the per-class theorem behind all of them, for every class of every generated table *)
Theorem C06_tkey_prefix_free_class : forall kc d1 d2,
  body_ok kc d1 -> body_ok kc d2 -> prefix_free_pair (tkey_of kc d1) (tkey_of kc d2).
Proof. exact tkey_of_prefix_free. Qed.
Print Assumptions C06_tkey_prefix_free_class.

(* the constructors that take the block coordinate as an unchecked string (imageblk/labelblk NewTKeyByCoord,
   labelvol.NewTKey) are NOT prefix free on strings of different lengths; body_ok (the 12-byte string that
   NewTKey(idx) passes) is a genuine hypothesis *)
Theorem C06_tkey_raw_refuted : forall kc n, kc_shape kc = KRaw n ->
  tkey_of kc [97] <> tkey_of kc [97; 98] /\ is_prefix (tkey_of kc [97]) (tkey_of kc [97; 98]).
Proof. exact raw_not_prefix_free. Qed.
Print Assumptions C06_tkey_raw_refuted.
(* tarsupervoxels keys have no terminator: across two extensions "a", "ab" the same supervoxel's keys are prefix related *)
Theorem C06_tkey_decsep_refuted : forall d,
  tkey_of (kc_tarsupervoxels_NewTKey [97]) d <> tkey_of (kc_tarsupervoxels_NewTKey [97; 98]) d
  /\ is_prefix (tkey_of (kc_tarsupervoxels_NewTKey [97]) d) (tkey_of (kc_tarsupervoxels_NewTKey [97; 98]) d).
Proof. exact decsep_not_prefix_free. Qed.
Print Assumptions C06_tkey_decsep_refuted.

(* two different classes never collide: not as TKeys (nor is one a prefix of the other), not as storage keys *)
Theorem C06_classes_disjoint : forall k1 k2 d1 d2,
  body_ok k1 d1 -> body_ok k2 d2 -> kc_class k1 <> kc_class k2 ->
  tkey_of k1 d1 <> tkey_of k2 d2 /\ ~ is_prefix (tkey_of k1 d1) (tkey_of k2 d2).
Proof. exact datatype_classes_disjoint. Qed.
Print Assumptions C06_classes_disjoint.
Theorem C06_classes_never_collide : forall k1 k2 d1 d2 i v c m v' c' m',
  id_ok i -> id_ok v -> id_ok c -> id_ok v' -> id_ok c' ->
  body_ok k1 d1 -> body_ok k2 d2 -> kc_class k1 <> kc_class k2 ->
  data_key i (tkey_of k1 d1) v c m <> data_key i (tkey_of k2 d2) v' c' m'.
Proof. exact classes_never_collide. Qed.
Print Assumptions C06_classes_never_collide.

(* storage.SplitKey / storage.MergeKey: for EVERY byte string on which SplitKey succeeds, MergeKey gives it back *)
Theorem C06_merge_split : forall k u v, split_key k = Ok (u, v) -> merge_key u v = k.
Proof. exact merge_split. Qed.
Print Assumptions C06_merge_split.
(* on a constructed key the components are (prefix, instance, TKey) and (version, client, marker): what the parsers return *)
Theorem C06_split_components : forall i tk v c m, id_ok i -> id_ok v -> id_ok c ->
  exists u s, split_key (data_key i tk v c m) = Ok (u, s)
    /\ u = n_dataKeyPrefix :: iid_bytes i ++ tk
    /\ s = vid_bytes v ++ cid_bytes c ++ [m]
    /\ tkey_from_key (Some (merge_key u s)) = Ok tk
    /\ data_key_to_local_ids (merge_key u s) = Ok (i, v, c)
    /\ length s = suffix_size.
Proof. exact split_components. Qed.
Print Assumptions C06_split_components.
Theorem C06_split_metadata : forall tk, split_key (metadata_key tk) = Ok (metadata_split_key tk).
Proof. exact split_metadata_key. Qed.
Print Assumptions C06_split_metadata.

(* TKeyClassRange(c) of instance i holds exactly instance i's keys of class c, for the constructors of every
   generated class made by storage.NewTKey; every generated class is a byte, and only imagetile's legacy key
   has no NewTKey header *)
Theorem C06_class_range_generated : forall kc kc' i i' d v c m,
  id_ok i -> id_ok i' -> byte_ok (kc_class kc) -> byte_ok (kc_class kc') -> has_header kc' ->
  (in_range (fst (tkey_class_range i (kc_class kc))) (snd (tkey_class_range i (kc_class kc)))
            (data_key i' (tkey_of kc' d) v c m) <-> (i' = i /\ kc_class kc' = kc_class kc)).
Proof. exact class_range_generated. Qed.
Print Assumptions C06_class_range_generated.
Theorem C06_generated_classes_ok : forall ext kc, In kc (all_keyclasses ext) ->
  byte_ok (kc_class kc) /\ (has_header kc \/ kc_shape kc = kc_shape kc_imagetile_NewTKey).
Proof. exact all_keyclasses_byte_ok. Qed.
Print Assumptions C06_generated_classes_ok.

Example C06_round4_concrete :
  wf_tkey keyclasses_imageblk (tkey_of kc_imageblk_NewTKeyByCoord (repeat 255 12))
  /\ wf_tkey (keyclasses_tarsupervoxels [100; 97; 116]) (tkey_of (kc_tarsupervoxels_NewTKey [100; 97; 116]) [0;0;0;0;0;0;4;210])
  /\ tkey_of (kc_tarsupervoxels_NewTKey [100; 97; 116]) [0;0;0;0;0;0;4;210]
      = [kc_class (kc_tarsupervoxels_NewTKey []); n_tkeyStandardByte; 49; 50; 51; 52; 46; 100; 97; 116]
  /\ dec_digits 18446744073709551615 = [49;56;52;52;54;55;52;52;48;55;51;55;48;57;53;53;49;54;49;53]
  /\ body_ok kc_imagetile_NewTKey [3; 2; 0; 1]
  /\ split_key (construct_data_key 1 2 3 (kv_tkey [97]))
      = Ok ([n_dataKeyPrefix; 0;0;0;1; 177; 1; 97; 0], [0;0;0;2; 0;0;0;3; n_MarkData])
  /\ split_key [n_dataKeyPrefix; 0; 0] = Panic /\ split_key [] = Panic /\ split_key [n_blobKeyPrefix; 5] = Err.
Proof.
  repeat split; try (vm_compute; reflexivity).
  - exists kc_imageblk_NewTKeyByCoord, (repeat 255 12). repeat split. now left.
  - eexists _, _. repeat split; [now left|]. vm_compute. now left.
Qed.

Example C06_isolation_concrete :
  let s := put {| cx_instance := 2; cx_version := 1; cx_client := 0 |} (kv_tkey [98]) [7] [] in
  instance_slice 2 (apply_iops 1 [IPut 1 0 (kv_tkey [97]) [1]; IDeleteInstance; IDeleteAllVersioned] s) = s.
Proof. vm_compute. reflexivity. Qed.
