(* C18 — Spatial keys, packed block indices and run-length volumes preserve geometry.
   Only statements, each closed by [exact] of a lemma proved in Proofs/, and Print Assumptions.
   The key codec, the packed index and Chunk are the functions GENERATED from the Go source
   (Gen/Arith.v); the run-length algebra and the ROI queries are the models of Model/RLE.v, Model/ROI.v. *)
From DV Require Import Base.Prelude Base.Int Base.WrapZ Gen.Consts Gen.Arith Gen.LocalConsts
  Model.Geometry Model.RLE Model.ROI Proofs.Geometry Proofs.RLE Proofs.ROI
  Model.RLE2 Model.IZYX Proofs.RLE2 Proofs.IZYX Model.ROIPart Proofs.ROIPart.
From Coq Require Import Sorting.Sorted Sorting.Permutation.
Local Open Scope Z_scope.

(* The model's coordinate arithmetic is, word for word, what the translator generates from the
   current Go source (Gen/Arith.v is rebuilt on every run). *)
Theorem C18_source_tie :
  g_EncodeBlockIndex = r_EncodeBlockIndex /\ g_DecodeBlockIndex = r_DecodeBlockIndex
  /\ g_BlockIndexToIZYXString = r_BlockIndexToIZYXString
  /\ g_BlockIndexToIZYXString_via = r_BlockIndexToIZYXString_via
  /\ g_Point3d_ToZYXBytes = r_Point3d_ToZYXBytes /\ g_Point3d_FromZYXBytes = r_Point3d_FromZYXBytes
  /\ g_Point3d_Chunk = r_Point3d_Chunk.
Proof. exact source_tie. Qed.

(* the batch / preallocation sizes the driver takes its boundary cases from are declared in the
   source (Gen/LocalConsts.v is regenerated on every run; a missing declaration fails here) *)
Example C18_boundary_sizes_declared : 0 < z_roi_PutSpans_BATCH_SIZE /\ 0 < z_dvid_ReadRLEs_maxPrealloc.
Proof. split; reflexivity. Qed.

(* ---------- block-coordinate keys: for ALL int32 coordinates ---------- *)

(* Encoding a block coordinate gives 12 bytes that decode to the same coordinate. *)
Theorem C18_zyx_roundtrip : forall p, pt_is32 p ->
  exists b, to_zyx p = Ok b /\ length b = 12%nat /\ Forall (fun x => 0 <= x < 256) b /\ from_zyx b = Ok p.
Proof. exact zyx_roundtrip_l. Qed.
Print Assumptions C18_zyx_roundtrip.

(* Byte order of the keys (Go's bytes.Compare / string <) is (z, y, x) order of the coordinates. *)
Theorem C18_zyx_order : forall p q bp bq, pt_is32 p -> pt_is32 q ->
  to_zyx p = Ok bp -> to_zyx q = Ok bq -> bytes_cmp bp bq = zyx_cmp p q.
Proof. exact zyx_order_l. Qed.
Print Assumptions C18_zyx_order.

(* ---------- packed block index: exactly the coordinates of magnitude below 2^20 ---------- *)

Theorem C18_blockindex_roundtrip : forall p, pt_is32 p ->
  in_blockindex_range (px p) -> in_blockindex_range (py p) -> in_blockindex_range (pz p) ->
  decode_block_index (encode_block_index p) = p.
Proof. exact blockindex_roundtrip_l. Qed.
Print Assumptions C18_blockindex_roundtrip.

(* ... and for no other int32 coordinate: the boundary is exact. *)
Theorem C18_blockindex_exact : forall p, pt_is32 p ->
  (decode_block_index (encode_block_index p) = p
   <-> in_blockindex_range (px p) /\ in_blockindex_range (py p) /\ in_blockindex_range (pz p)).
Proof. exact blockindex_roundtrip_iff. Qed.
Print Assumptions C18_blockindex_exact.

(* +2^20 and -2^20 both decode to 0, and the code "sign bit with magnitude 0" (-0) is not the
   code of its own decoding. *)
Theorem C18_blockindex_outside_refuted :
  decode_block_index (encode_block_index (1048576, 0, 0)) = (0, 0, 0)
  /\ decode_block_index (encode_block_index (-1048576, 0, 0)) = (0, 0, 0)
  /\ decode_block_index (encode_block_index (1048575, -1048575, 0)) = (1048575, -1048575, 0)
  /\ encode_block_index (decode_block_index 1048576) = 0.
Proof. exact blockindex_boundary_examples. Qed.

(* every other code below 2^63 is the code of its decoding *)
Theorem C18_blockindex_code_roundtrip : forall w, 0 <= w < 2 ^ 63 ->
  w mod 2097152 <> 1048576 -> (w / 2097152) mod 2097152 <> 1048576 -> w / 4398046511104 <> 1048576 ->
  encode_block_index (decode_block_index w) = w.
Proof. exact blockindex_code_roundtrip_l. Qed.
Print Assumptions C18_blockindex_code_roundtrip.

(* BlockIndexToIZYXString is DecodeBlockIndex followed by the key encoder *)
Theorem C18_blockindex_to_izyx : forall w,
  block_index_to_izyx w = to_zyx (decode_block_index w) /\ block_index_to_izyx_via_ok = true.
Proof. exact blockindex_to_izyx_l. Qed.

(* Point3d.Chunk is floor division (also below zero) *)
Theorem C18_chunk_floor : forall p size, pt_safe p -> bsize_ok size -> chunk_pt p size = Ok (block_of size p).
Proof. exact chunk_pt_floor. Qed.
Print Assumptions C18_chunk_floor.

(* ---------- run-length volumes ---------- *)
(* run_ok: non-empty run, x extent inside [-2^29, 2^29], y and z inside [-2^30, 2^30): no int32
   overflow anywhere.  pairwise_disjoint: no voxel lies in two runs of the list.
   inrs p l: voxel p lies in some run of l. *)

Theorem C18_normalize_voxels : forall l p, Forall run_ok l -> inrs p (normalize l) = inrs p l.
Proof. exact normalize_voxels_l. Qed.
Print Assumptions C18_normalize_voxels.

(* the result is sorted by (z, y, x) and has no overlapping or adjacent runs *)
Theorem C18_normalize_canonical : forall l, Forall run_ok l -> pairwise_disjoint l ->
  StronglySorted run_gap (normalize l) /\ Forall run_ok (normalize l).
Proof. exact normalize_canon. Qed.
Print Assumptions C18_normalize_canonical.

Theorem C18_excise : forall r s p, run_ok r -> run_ok s -> contains r s ->
  excise r s = Some (excise_frags r s) /\ inrs p (excise_frags r s) = inr p r && negb (inr p s).
Proof. exact excise_l. Qed.
Print Assumptions C18_excise.

(* Split of a subset = set difference (never the error return) *)
Theorem C18_split_difference : forall rles splits,
  Forall run_ok rles -> pairwise_disjoint rles -> Forall run_ok splits -> pairwise_disjoint splits ->
  (forall p, inrs p splits = true -> inrs p rles = true) ->
  exists out, split rles splits = Ok out /\ forall p, inrs p out = inrs p rles && negb (inrs p splits).
Proof. exact split_ok. Qed.
Print Assumptions C18_split_difference.

(* Partition = disjoint union over blocks, for every block size and negative coordinates: the
   blocks' runs together hold exactly the voxels (membership and count), every run lies inside
   the block it is filed under (block_of = floor division), block keys are distinct. *)
Theorem C18_partition : forall rles size, size_ok size -> Forall run_ok rles ->
  exists m, partition rles size = Ok m
    /\ NoDup (map fst m)
    /\ (forall p, existsb (fun e => inrs p (snd e)) m = inrs p rles)
    /\ (forall b rs r, In (b, rs) m -> In r rs -> run_ok r /\ forall p, inr p r = true -> block_of size p = b)
    /\ bmap_voxels m = num_voxels rles.
Proof. exact partition_ok. Qed.
Print Assumptions C18_partition.

(* FitToBounds = intersection with the box; nil bounds = no clipping (repaired code) *)
Theorem C18_fit_to_bounds : forall rles ob, Forall run_ok rles ->
  Forall run_ok (fit_to_bounds rles ob)
  /\ forall p, inrs p (fit_to_bounds rles ob) = inrs p rles && inside_opt ob p.
Proof. exact fit_ok. Qed.
Print Assumptions C18_fit_to_bounds.

(* the code before repo_patches/C18-1-fix.diff returned no runs for nil bounds *)
Theorem C18_fit_to_bounds_nil_refuted :
  exists rles p, Forall run_ok rles /\
    inrs p (fit_to_bounds_orig rles None) <> inrs p rles && inside_opt None p.
Proof. exact fit_orig_refuted. Qed.
Theorem C18_fit_to_bounds_partial : forall rles ob,
  fit_to_bounds_orig rles (Some ob) = fit_to_bounds rles (Some ob).
Proof. exact fit_orig_some. Qed.

(* Add = union *)
Theorem C18_add_union : forall l l2, Forall run_ok l -> Forall run_ok l2 ->
  Forall run_ok (fst (add l l2)) /\ forall p, inrs p (fst (add l l2)) = inrs p l || inrs p l2.
Proof. exact add_union_l. Qed.
Print Assumptions C18_add_union.

(* ... and its count (repaired code, repo_patches/C18-3-fix.diff) is the number of voxels added:
   for every run of l2 in turn there are ordered, pairwise separate pieces of it that hold exactly
   its voxels found neither in l nor in the earlier runs of l2, and the count is their total length *)
Theorem C18_add_count : forall l l2, Forall run_ok l -> Forall run_ok l2 ->
  exists news, new_parts l l2 news /\ snd (add l l2) = fold_right (fun fr s => num_voxels fr + s) 0 news.
Proof. exact add_count_l. Qed.
Print Assumptions C18_add_count.

(* the code before C18-3 builds the same runs ... *)
Theorem C18_add_orig_same_runs : forall l2 l a b, fst (add_runs_orig l l2 a) = fst (add_runs l l2 b).
Proof. exact add_orig_same_runs. Qed.
(* ... but its count is NOT the number of new voxels when an added run bridges two runs *)
Theorem C18_add_count_refuted :
  exists l l2, Forall run_ok l /\ Forall run_ok l2 /\ pairwise_disjoint l /\
    snd (add_orig l l2) = 3 /\
    let count l := Z.of_nat (length (filter (fun x => inrs (Z.of_nat x, 0, 0) l) (seq 0 20))) in
    (forall p, inrs p (fst (add_orig l l2)) = true -> py p = 0 /\ pz p = 0 /\ 0 <= px p < 20) /\
    count (fst (add_orig l l2)) - count l = 1.
Proof. exact add_count_refuted. Qed.

(* Split when the split runs share no voxel with the runs (not a subset): the error return *)
Theorem C18_split_disjoint_error : forall rles splits,
  Forall run_ok rles -> Forall run_ok splits -> splits <> [] ->
  pairwise_disjoint rles -> pairwise_disjoint splits ->
  (forall p, inrs p splits = true -> inrs p rles = false) -> split rles splits = Err.
Proof. exact split_disjoint_err. Qed.
Print Assumptions C18_split_disjoint_error.

(* binary encoding, for all int32 field values *)
Theorem C18_marshal_roundtrip : forall l, Forall run32 l -> unmarshal (marshal l) = Ok l.
Proof. exact unmarshal_marshal. Qed.
Print Assumptions C18_marshal_roundtrip.

Theorem C18_read_rles : forall hdr l extra,
  Forall run32 l -> length hdr = 7%nat -> (N.of_nat (length l) < 2 ^ 32)%N ->
  read_rles ((n_EncodingBinary :: hdr) ++ le_enc 4 (N.of_nat (length l)) ++ marshal l ++ extra) = Ok l.
Proof. exact read_rles_ok. Qed.
Print Assumptions C18_read_rles.

(* ---------- ROI span queries agree with span membership ---------- *)
(* spans_sorted: the list is in (z, y, x0) order, as the ordered store returns the keys *)

Theorem C18_point_query : forall size spans pts,
  bsize_ok size -> Forall pt_safe pts -> spans_sorted spans ->
  point_query size spans pts = Ok (map (fun p => in_spans (block_of size p) spans) pts).
Proof. exact point_query_ok. Qed.
Print Assumptions C18_point_query.

(* ... whatever order the (unstable) sort leaves equal block points in *)
Theorem C18_point_query_any_sort : forall spans cs sorted, spans_sorted spans ->
  Permutation (index_from 0 cs) sorted -> StronglySorted ipt_le sorted ->
  pq_sweep spans sorted (repeat false (length cs)) = map (fun c => in_spans c spans) cs.
Proof. exact pq_any_sorted. Qed.
Print Assumptions C18_point_query_any_sort.

Theorem C18_get_mask : forall bs offset size spans,
  mask_pre bs offset size -> Forall span_ok spans -> spans_sorted spans ->
  get_mask false bs offset size spans
  = Ok (map (fun v => in_spans (block_of bs (padd offset v)) spans) (mask_voxels size)).
Proof. exact get_mask_ok. Qed.
Print Assumptions C18_get_mask.

(* the code before repo_patches/C18-2-fix.diff (block range by truncating division) *)
Theorem C18_get_mask_trunc_refuted :
  exists bs offset size spans v,
    mask_pre bs offset size /\ Forall span_ok spans /\ spans_sorted spans /\ in_size size v /\
    mask_at true bs offset size spans v <> Ok (in_spans (block_of bs (padd offset v)) spans).
Proof. exact mask_trunc_refuted. Qed.
Theorem C18_get_mask_partial : forall bs pt0 pt1,
  bsize_ok bs -> pt_safe pt0 -> pt_safe pt1 -> 0 <= px pt0 -> 0 <= py pt0 -> 0 <= pz pt0 ->
  0 <= px pt1 -> 0 <= py pt1 -> 0 <= pz pt1 ->
  block_range true bs pt0 pt1 = block_range false bs pt0 pt1.
Proof. exact block_range_nonneg. Qed.

Theorem C18_voxel_bounds_inside : forall vmin vmax bs spans,
  pt_safe vmin -> pt_safe vmax -> bsize_ok bs -> spans_sorted spans ->
  voxel_bounds_inside vmin vmax bs spans
  = Ok (existsb (span_intersects_box (block_of bs vmin) (block_of bs vmax)) spans).
Proof. exact voxel_bounds_inside_ok. Qed.
Print Assumptions C18_voxel_bounds_inside.

Theorem C18_box_intersection_is_membership : forall emin emax s, px emin <= px emax -> sx0 s <= sx1 s ->
  (span_intersects_box emin emax s = true <->
   exists b, span_includes s b = true /\ px emin <= px b <= px emax /\ py emin <= py b <= py emax
             /\ pz emin <= pz b <= pz emax).
Proof. exact intersects_iff_block. Qed.

(* ---------- round 4: RLEs.Within / Offset / Stats ---------- *)

(* RLE.Within is voxel membership of the run *)
Theorem C18_rle_within : forall r p, run_ok r -> rle_within r p = inr p r.
Proof. exact rle_within_inr. Qed.
Print Assumptions C18_rle_within.

(* RLEs.Within returns, without repetition, exactly the positions of the points that lie in the
   voxel set of the runs (runs may overlap, points may repeat) *)
Theorem C18_within : forall l pts, Forall run_ok l ->
  NoDup (within l pts) /\
  forall k, In k (within l pts) <-> exists p, nth_error pts k = Some p /\ inrs p l = true.
Proof. exact within_ok. Qed.
Print Assumptions C18_within.

(* RLEs.Offset(d): p is in the result iff p + d is in the receiver; lengths and order kept *)
Theorem C18_offset : forall l d p, Forall run_ok l -> pt_safe d ->
  inrs p (offset l d) = inrs (padd3 p d) l.
Proof. exact offset_ok. Qed.
Print Assumptions C18_offset.
Theorem C18_offset_shape : forall l d, length (offset l d) = length l /\ map rlen (offset l d) = map rlen l.
Proof. exact offset_shape. Qed.

(* RLEs.Stats of pairwise disjoint runs: the number of voxels of the set (the length of a
   duplicate-free enumeration of it) and the number of runs *)
Theorem C18_stats : forall l, Forall run_ok l -> pairwise_disjoint l -> Z.of_nat (length l) < 2147483648 ->
  exists vs, NoDup vs /\ (forall p, In p vs <-> inrs p l = true)
             /\ stats l = (Z.of_nat (length vs), Z.of_nat (length l)).
Proof. exact stats_voxels. Qed.
Print Assumptions C18_stats.
(* for any runs (overlaps counted as often as they occur): the sum of the lengths *)
Theorem C18_stats_sum : forall l, Forall run_ok l -> Z.of_nat (length l) < 2147483648 ->
  stats l = (num_voxels l, Z.of_nat (length l)).
Proof. exact stats_ok. Qed.
Print Assumptions C18_stats_sum.

(* ---------- round 4: IZYXSlice (sorted slices of block keys) ---------- *)

(* the model's order and equality on block coordinates are Go's `<` and `==` on their keys *)
Theorem C18_izyx_key_order : forall p q bp bq, pt_is32 p -> pt_is32 q -> to_zyx p = Ok bp -> to_zyx q = Ok bq ->
  (zlt p q = true <-> bytes_cmp bp bq = Lt) /\ (p = q <-> bp = bq).
Proof. exact key_order. Qed.
Print Assumptions C18_izyx_key_order.

(* Merge / MergeCopy of two sorted duplicate-free slices: the sorted duplicate-free union *)
Theorem C18_izyx_merge : forall a b, ssorted a = true -> ssorted b = true ->
  ssorted (imerge a b) = true /\ forall p, In p (imerge a b) <-> In p a \/ In p b.
Proof. exact imerge_ok. Qed.
Print Assumptions C18_izyx_merge.
Theorem C18_izyx_merge_copy : forall a b, ssorted a = true -> ssorted b = true ->
  ssorted (merge_copy a b) = true /\ forall p, In p (merge_copy a b) <-> In p a \/ In p b.
Proof. exact merge_copy_ok. Qed.
Print Assumptions C18_izyx_merge_copy.

(* Delete (in place) and Split (copy): the sorted set difference *)
Theorem C18_izyx_delete : forall a b, ssorted a = true -> ssorted b = true ->
  ssorted (idelete a b) = true /\ forall p, In p (idelete a b) <-> In p a /\ ~ In p b.
Proof. exact idelete_ok. Qed.
Print Assumptions C18_izyx_delete.
Theorem C18_izyx_split : forall a rm, ssorted a = true -> ssorted rm = true ->
  ssorted (isplit a rm) = true /\ forall p, In p (isplit a rm) <-> In p a /\ ~ In p rm.
Proof. exact isplit_ok. Qed.
Print Assumptions C18_izyx_split.

(* FitToBounds of a sorted slice: the blocks inside the optional block bounds (nil: all) *)
Theorem C18_izyx_fit_to_bounds : forall l b, ssorted l = true ->
  ssorted (ifit l b) = true /\ forall q, In q (ifit l b) <-> In q l /\ inside_opt b q = true.
Proof. exact ifit_ok. Qed.
Print Assumptions C18_izyx_fit_to_bounds.

(* Downres(scale) of any slice (unsorted, repeats): the set of parents floor(c / 2^scale), sorted and
   duplicate-free when scale > 0; scale 0 returns the slice as it is *)
Theorem C18_izyx_downres : forall l s, 0 <= s ->
  (s <> 0 -> ssorted (downres l s) = true)
  /\ (s = 0 -> downres l s = l)
  /\ forall q, In q (downres l s) <-> exists p, In p l /\ q = (px p / 2 ^ s, py p / 2 ^ s, pz p / 2 ^ s).
Proof. exact downres_ok. Qed.
Print Assumptions C18_izyx_downres.

(* GetBounds of a non-empty slice is the bounding box of its blocks: every coordinate between the
   returned minimum and maximum, both attained -- for coordinates from -2147483646 up (the code's
   initial maximum is -math.MaxInt32 + 1) ... *)
Theorem C18_izyx_get_bounds : forall l, l <> [] -> Forall (coords_in (-2147483646) 2147483647) l ->
  is_bbox l (fst (get_bounds l)) (snd (get_bounds l)).
Proof. exact get_bounds_ok. Qed.
Print Assumptions C18_izyx_get_bounds.
(* ... and not below: one block at x = -2147483647 gets the maximum -2147483646 *)
Theorem C18_izyx_get_bounds_min_refuted :
  exists l, l <> [] /\ Forall pt_is32 l /\ ~ is_bbox l (fst (get_bounds l)) (snd (get_bounds l))
            /\ get_bounds l = ((-2147483647, 0, 0), (-2147483646, 0, 0)).
Proof. exact get_bounds_min_refuted. Qed.
(* with repo_patches/C18-4-fix.diff (initial maximum math.MinInt32): every int32 coordinate *)
Theorem C18_izyx_get_bounds_fixed : forall l, l <> [] -> Forall pt_is32 l ->
  is_bbox l (fst (get_bounds_fixed l)) (snd (get_bounds_fixed l)).
Proof. exact get_bounds_fixed_ok. Qed.
Print Assumptions C18_izyx_get_bounds_fixed.

(* ---------- round 4: ROI partitioning (the reply of GET <roi>/partition) ---------- *)
(* The check evaluates three booleans on the subvolumes the server reports; they mean: every block
   of the ROI has exactly one owner among the subvolumes, no block at all lies in two subvolumes,
   TotalBlocks is the volume of the box and ActiveBlocks the number of ROI blocks in it.  (No model
   of the partitioner itself: these are statements about the oracle, for every reply.) *)
Theorem C18_partition_tiles : forall spans vs, tiles_ok spans vs = true ->
  forall b, in_spans b spans = true -> exists v, owners vs b = [v] /\ In v vs /\ box_has v b = true.
Proof. exact tiles_sound. Qed.
Print Assumptions C18_partition_tiles.
Theorem C18_partition_no_block_twice : forall vs, boxes_disjointb vs = true ->
  forall b, (length (owners vs b) <= 1)%nat.
Proof. exact disjoint_sound. Qed.
Print Assumptions C18_partition_no_block_twice.
Theorem C18_partition_counts : forall spans vs, counts_ok spans vs = true ->
  forall v, In v vs -> vtotal v = box_volume v
                       /\ vactive v = Z.of_nat (length (filter (box_has v) (roi_blocks spans))).
Proof. exact counts_sound. Qed.
(* the reply of the code as it stands for spans {z=0: x 0..1} and {z=100: x 0..1}, batchsize 4:
   the blocks at z = 100 have no owner *)
Example C18_partition_empty_layer_reply :
  let spans := [SP 0 0 0 1; SP 100 0 0 1] in
  let vs := [SV (-1, 0, 0) (2, 3, 3) 64 2; SV (-1, 0, 4) (2, 3, 7) 64 2] in
  boxes_disjointb vs = true /\ tiles_ok spans vs = false /\ owners vs (0, 0, 100) = []
  /\ has_z_gap 4 spans = true.
Proof. vm_compute. repeat split. Qed.
Example C18_ex_partition :
  let spans := [SP 0 0 0 1; SP 1 5 3 9] in
  let vs := [SV (0, 0, 0) (1, 1, 1) 8 2; SV (3, 4, 0) (4, 5, 1) 8 2; SV (5, 4, 0) (6, 5, 1) 8 2;
             SV (7, 4, 0) (8, 5, 1) 8 2; SV (9, 4, 0) (10, 5, 1) 8 1] in
  boxes_disjointb vs = true /\ tiles_ok spans vs = true /\ counts_ok spans vs = true.
Proof. vm_compute. repeat split. Qed.

(* ---------- non-vacuity: the hypotheses are inhabited by non-trivial values ---------- *)
Example C18_ex_round4_runs :
  let l := [R 5 0 (-1) 3; R (-4) 0 (-1) 9; R 0 7 7 1] in
  Forall run_ok l /\ pairwise_disjoint l /\ pt_safe (3, -4, 1073741823)
  /\ within l [(5, 0, -1); (8, 0, -1); (-4, 0, -1); (0, 7, 7); (0, 7, 8)] = [0; 2; 3]%nat
  /\ offset l (3, -4, 5) = [R 2 4 (-6) 3; R (-7) 4 (-6) 9; R (-3) 11 2 1]
  /\ stats l = (13, 3).
Proof.
  cbv zeta.
  assert (D : forall a b, (ry a <> ry b \/ rz a <> rz b \/ rx a + rlen a <= rx b \/ rx b + rlen b <= rx a) -> disjoint_runs a b).
  { intros a b H [[x y] z]. unfold inr, px, py, pz; cbn [fst snd]. destruct a, b; cbn [RLE.rx RLE.ry RLE.rz RLE.rlen] in *. lia. }
  split; [repeat constructor; cbn; lia|]. split; [repeat constructor; apply D; cbn; lia|].
  split; [unfold pt_safe, px, py, pz; cbn; lia|]. vm_compute. repeat split.
Qed.

Example C18_ex_round4_izyx :
  let a := [(-1, 0, -1); (0, 0, 0); (1, 0, 0); (-5, -5, 1)] in
  let b := [(0, 0, 0); (0, 1, 0); (7, 7, 7)] in
  ssorted a = true /\ ssorted b = true /\ Forall pt_is32 (a ++ b)
  /\ imerge a b = [(-1, 0, -1); (0, 0, 0); (1, 0, 0); (0, 1, 0); (-5, -5, 1); (7, 7, 7)]
  /\ idelete a b = [(-1, 0, -1); (1, 0, 0); (-5, -5, 1)] /\ isplit a b = idelete a b
  /\ ifit a (Some (OB None None None None (Some 0) (Some 0))) = [(0, 0, 0); (1, 0, 0)]
  /\ downres a 1 = [(-1, 0, -1); (-3, -3, 0); (0, 0, 0)]
  /\ get_bounds a = ((-5, -5, -1), (1, 0, 1)).
Proof.
  cbv zeta. split; [reflexivity|]. split; [reflexivity|].
  split; [repeat constructor; unfold is32, px, py, pz; cbn; lia|]. vm_compute. repeat split.
Qed.

Example C18_ex_key :
  to_zyx (-1, 0, 2147483647) = Ok [255; 255; 255; 255; 128; 0; 0; 0; 127; 255; 255; 255]
  /\ pt_is32 (-1, 0, 2147483647).
Proof. split; [vm_compute; reflexivity|]. unfold pt_is32, is32, px, py, pz; cbn. lia. Qed.

Example C18_ex_runs :
  let l := [R 5 0 (-1) 3; R (-4) 0 (-1) 9; R 8 0 (-1) 2; R 0 7 7 1] in
  let s := [R 6 0 (-1) 3; R (-4) 0 (-1) 1] in
  Forall run_ok l /\ Forall run_ok s /\ pairwise_disjoint l /\ pairwise_disjoint s
  /\ (forall p, inrs p s = true -> inrs p l = true)
  /\ normalize l = [R (-4) 0 (-1) 14; R 0 7 7 1]
  /\ split l s = Ok [R (-3) 0 (-1) 9; R 9 0 (-1) 1; R 0 7 7 1]
  /\ partition l (8, 8, 8) = Ok [((0, 0, -1), [R 5 0 (-1) 3; R 0 0 (-1) 5]); ((-1, 0, -1), [R (-4) 0 (-1) 4]);
                                 ((1, 0, -1), [R 8 0 (-1) 2]); ((0, 0, 0), [R 0 7 7 1])].
Proof.
  cbv zeta.
  assert (D : forall a b, (ry a <> ry b \/ rz a <> rz b \/ rx a + rlen a <= rx b \/ rx b + rlen b <= rx a) -> disjoint_runs a b).
  { intros a b H [[x y] z]. unfold inr, px, py, pz; cbn [fst snd]. destruct a, b; cbn [RLE.rx RLE.ry RLE.rz RLE.rlen] in *. lia. }
  split; [repeat constructor; cbn; lia|]. split; [repeat constructor; cbn; lia|].
  split; [repeat constructor; apply D; cbn; lia|]. split; [repeat constructor; apply D; cbn; lia|].
  split; [|vm_compute; repeat split].
  intros [[x y] z]. cbn [inrs existsb]. unfold inr, px, py, pz; cbn [fst snd rx ry rz rlen]. lia.
Qed.

Example C18_ex_roi :
  let spans := [SP (-1) (-1) (-2) (-1); SP (-1) 0 0 3; SP 0 0 (-1) 1] in
  spans_sorted spans /\ Forall span_ok spans /\ mask_pre (8, 8, 8) (-12, -9, -8) (16, 12, 9)
  /\ point_query (8, 8, 8) spans [(5, 3, -1); (-9, -1, -8); (32, 0, -1); (-9, 0, 0)] = Ok [true; true; false; false].
Proof.
  cbv zeta. split; [repeat constructor; unfold span_start_le; cbn; lia|].
  split; [repeat constructor; cbn; lia|].
  split; [unfold mask_pre, mask_bs_ok, px, py, pz; cbn; lia|]. vm_compute. reflexivity.
Qed.
