(* Refinement: the byte-level store of one data instance (Model.Keys / KV / KVRange) refines the
   abstract versioned core (Model.Core / Resolve / Copy).  Not one of the 20 properties: it ties
   C01 / C19 (abstract) to C05 / C06 (bytes).  Statements only.

   Parameters throughout: instance id [i]; [enc : N -> bytes] abstract key -> TKey, injective, image
   pairwise prefix free; [venc : N -> bytes] abstract value id -> stored bytes (any function: with
   repo_patches/C05-1-fix an empty stored value is a value).  Client id 0. *)
From DV Require Import Base.Prelude Base.Int Base.Lex Base.KeyShape Gen.Consts Gen.KeyClasses
     Model.Dag Model.Resolve Model.Core Model.Copy Model.Keys Model.KV Model.KVRange Model.Refine
     Proofs.Resolve Proofs.Core Proofs.Copy Proofs.Keys Proofs.KV Proofs.KVRange Proofs.Refine.
From Coq Require Import Sorting.Sorted.
Local Open Scope N_scope.

(* (2) the empty store refines the initial core *)
Theorem Refine_init : forall i enc venc, Refines i enc venc core_init [].
Proof. exact refines_init. Qed.
Print Assumptions Refine_init.

(* (3) a write the gate lets through: Put / Delete under context (i, v) refine OPut / ODel *)
Theorem Refine_put : forall i enc venc, id_ok i -> (forall k1 k2, enc k1 = enc k2 -> k1 = k2) ->
  forall c s k v x, id_ok v -> Refines i enc venc c s ->
  Refines i enc venc (with_entry c k v (Val x)) (put (rcx i v) (enc k) (venc x) s).
Proof. exact refines_put. Qed.
Print Assumptions Refine_put.

Theorem Refine_delete : forall i enc venc, id_ok i -> (forall k1 k2, enc k1 = enc k2 -> k1 = k2) ->
  forall c s k v, id_ok v -> Refines i enc venc c s ->
  Refines i enc venc (with_entry c k v Tomb) (delete (rcx i v) (enc k) s).
Proof. exact refines_delete. Qed.
Print Assumptions Refine_delete.

(* one API-level operation (OPut / ODel through the gate, OCommit / OChild / OGet leaving the
   bytes alone), while version ids fit 32 bits *)
Theorem Refine_step : forall i enc venc, id_ok i -> (forall k1 k2, enc k1 = enc k2 -> k1 = k2) ->
  forall c s o, CoreInv c -> next c <= 2 ^ 32 -> Refines i enc venc c s ->
  Refines i enc venc (fst (step c o)) (bstep i enc venc c o s).
Proof. exact refines_step. Qed.
Print Assumptions Refine_step.

(* every operation sequence *)
Theorem Refine_run : forall i enc venc, id_ok i -> (forall k1 k2, enc k1 = enc k2 -> k1 = k2) ->
  forall ops c s, CoreInv c -> next (run ops c) <= 2 ^ 32 -> Refines i enc venc c s ->
  Refines i enc venc (run ops c) (snd (brun i enc venc ops c s)).
Proof. exact refines_run. Qed.
Print Assumptions Refine_run.

Theorem Refine_history : forall i enc venc, id_ok i -> (forall k1 k2, enc k1 = enc k2 -> k1 = k2) ->
  forall ops, next (run ops core_init) <= 2 ^ 32 ->
  Refines i enc venc (run ops core_init) (snd (brun i enc venc ops core_init [])).
Proof.
  intros i enc venc Hi EI ops B.
  exact (refines_run i enc venc Hi EI ops core_init [] core_inv_init B (refines_init i enc venc)).
Qed.
Print Assumptions Refine_history.

(* (4a) point read: BadgerDB.Get / keyvalue GetData on the bytes, with the resolver instantiated by
   Model.Resolve.read over the entries built from the stored keys, = Core.get, in the conventions
   of the point read (not found, deleted and unresolved conflict all read as nothing) *)
Theorem Refine_point_get : forall i enc venc, id_ok i -> (forall k1 k2, enc k1 = enc k2 -> k1 = k2) ->
  forall c s, Refines i enc venc c s -> CoreInv c -> forall k v,
  point_get (best_of_core c v) (rcx i v) (enc k) s = point_of venc (get c k v).
Proof. exact refine_point_get. Qed.
Print Assumptions Refine_point_get.

Theorem Refine_point_exists : forall i enc venc, id_ok i -> (forall k1 k2, enc k1 = enc k2 -> k1 = k2) ->
  forall c s, Refines i enc venc c s -> CoreInv c -> forall k v,
  point_exists (best_of_core c v) (rcx i v) (enc k) s = match get c k v with RFound _ _ => true | _ => false end.
Proof. exact refine_point_exists. Qed.
Print Assumptions Refine_point_exists.

(* the resolver over the stored keys = the abstract read with value ids erased *)
Theorem Refine_resolver_agrees : forall i enc venc, id_ok i -> (forall k1 k2, enc k1 = enc k2 -> k1 = k2) ->
  forall c s, Refines i enc venc c s -> CoreInv c -> forall k v,
  read (parents_of (dag c)) (kvv_of (map key_entry (get_key_versions_exact i (enc k) s))) (fuel_of c) (fuel_of c) v
  = erase_r (get c k v).
Proof. exact read_over_keys. Qed.
Print Assumptions Refine_resolver_agrees.

(* (4b) range read: GetRange over [lo, hi] = the abstract GETs of exactly the keys that have an
   entry and encode into the interval, ascending, in the conventions of the range read.
   C05_range_eq_points composed with the above; with C01_history_get each of those GETs is the
   frontier read *)
Theorem Refine_get_range : forall i enc venc, id_ok i -> (forall k1 k2, enc k1 = enc k2 -> k1 = k2) ->
  (forall k1 k2, prefix_free_pair (enc k1) (enc k2)) ->
  forall c s, Refines i enc venc c s -> CoreInv c -> forall v lo hi,
  (forall k, prefix_free_pair lo (enc k)) -> (forall k, prefix_free_pair hi (enc k)) ->
  prefix_free_pair lo hi -> lex_le lo hi ->
  exists ks,
    get_range (best_of_core c v) (rcx i v) lo hi s = range_of_core enc venc (map (fun k => (k, get c k v)) ks)
    /\ StronglySorted lex_lt (map enc ks)
    /\ (forall k, In k ks <-> ((exists u, ent_of c k u <> None) /\ lex_le lo (enc k) /\ lex_le (enc k) hi)).
Proof. exact refine_get_range. Qed.
Print Assumptions Refine_get_range.

Theorem Refine_range_is_frontier_reads : forall c k v, CoreInv c ->
  read_spec (cpar c) (ent_of c k) v (get c k v).
Proof. intros c k v I. now apply get_spec. Qed.
Print Assumptions Refine_range_is_frontier_reads.

(* a refining store satisfies the hypotheses of the C05 theorems *)
Theorem Refine_store_ok : forall i enc venc,
  (forall k1 k2, prefix_free_pair (enc k1) (enc k2)) ->
  forall c s, Refines i enc venc c s -> forall v, store_ok (rcx i v) s.
Proof. exact refines_store_ok. Qed.
Print Assumptions Refine_store_ok.

(* (5) copy: RawRangeQuery over KeyRange i + UpdateInstance to a fresh instance j refines copy_raw
   with the identity renaming of abstract keys; source untouched; every read equal *)
Theorem Refine_copy : forall i j enc venc, i < 2 ^ 32 - 1 -> id_ok j -> i <> j ->
  (forall k1 k2, enc k1 = enc k2 -> k1 = k2) ->
  forall c s, Refines i enc venc c s -> instance_slice j s = [] ->
  (forall e, In e s -> in_rangeb (fst (key_range i)) (snd (key_range i)) (fst e) = true -> of_instance i (fst e) = true) ->
  Refines j enc venc (copy_raw (fun k => Some k) c) (copy_instance i j s) /\
  Refines i enc venc c (copy_instance i j s).
Proof.
  intros i j enc venc Hi Hj NE EI c s R F SO. split.
  - exact (copy_refines_copy_raw i j enc venc Hi Hj NE EI c s R F SO).
  - exact (copy_refines_src i j enc venc Hi Hj NE EI c s R SO).
Qed.
Print Assumptions Refine_copy.

Theorem Refine_copy_reads_equal : forall i j enc venc c s k v,
  i < 2 ^ 32 - 1 -> id_ok j -> i <> j ->
  (forall k1 k2, enc k1 = enc k2 -> k1 = k2) ->
  CoreInv c -> Refines i enc venc c s -> instance_slice j s = [] ->
  (forall e, In e s -> in_rangeb (fst (key_range i)) (snd (key_range i)) (fst e) = true -> of_instance i (fst e) = true) ->
  point_get (best_of_core c v) (rcx j v) (enc k) (copy_instance i j s)
  = point_get (best_of_core c v) (rcx i v) (enc k) s.
Proof. exact copy_point_reads_equal. Qed.
Print Assumptions Refine_copy_reads_equal.

Theorem Refine_copy_abstract_reads_equal : forall c k v, CoreInv c ->
  get (copy_raw (fun k => Some k) c) k v = get c k v.
Proof. exact copy_raw_id_get. Qed.
Print Assumptions Refine_copy_abstract_reads_equal.

(* the scan hypothesis holds of every store made of well-formed data keys (C06_instance_range) *)
Theorem Refine_scan_hypothesis : forall i (s : KV.store), i < 2 ^ 32 - 1 ->
  (forall e, In e s -> exists i' t v c m, id_ok i' /\ fst e = data_key i' t v c m) ->
  forall e, In e s -> in_rangeb (fst (key_range i)) (snd (key_range i)) (fst e) = true -> of_instance i (fst e) = true.
Proof. exact scan_own_of_data_keys. Qed.
Print Assumptions Refine_scan_hypothesis.

(* (6) isolation at the level of the abstract core: whatever is done to instance A at the byte
   level (puts, deletes, batches, DeleteAll, dropping it — C06_instance_isolation), the store keeps
   refining instance B's core: every abstract read of B is unchanged *)
Theorem Refine_instance_isolation : forall iA iB enc venc c s ops,
  id_ok iA -> id_ok iB -> iA <> iB -> store_wf s ->
  Refines iB enc venc c s -> Refines iB enc venc c (apply_iops iA ops s).
Proof. exact refines_other_instance. Qed.
Print Assumptions Refine_instance_isolation.

(* ---- instantiation: keyvalue keys.  Abstract key n |-> NewTKey of the string "a" repeated n times
   (NUL free, so the class is prefix free: C06_tkey_prefix_free_keyvalue); value id 0 |-> the empty
   value, x > 0 |-> x little endian ---- *)
Definition ex_enc (n : N) : bytes := kv_tkey (repeat 97 (N.to_nat n)).
Definition ex_venc (x : N) : bytes := if x =? 0 then [] else le_enc 8 x.

Example ex_enc_inj : forall k1 k2, ex_enc k1 = ex_enc k2 -> k1 = k2.
Proof.
  intros k1 k2 E. unfold ex_enc, kv_tkey, tkey_of in E. cbn [kc_shape kc_keyvalue_NewTKey] in E.
  unfold new_tkey in E. inversion E as [H]. apply app_inv_tail in H.
  apply (f_equal (@length N)) in H. rewrite !repeat_length in H. now apply N2Nat.inj.
Qed.

Example ex_enc_pf : forall k1 k2, prefix_free_pair (ex_enc k1) (ex_enc k2).
Proof.
  intros k1 k2. unfold ex_enc, kv_tkey. apply tkey_of_prefix_free; simpl; intro H; apply repeat_spec in H; discriminate.
Qed.

(* a branched history run on both sides: the store refines the core, and the byte-level reads
   answer what the abstract machine answers (value 200 at the merge, nothing where deleted) *)
Definition ex_hist : list op :=
  [OPut 0 1 100; OPut 2 1 7; OPut 3 1 0; OCommit 1 true; OChild [1] true; OChild [1] true;
   OPut 0 2 200; ODel 2 3; OCommit 2 true; OCommit 3 true; OChild [2; 3] true].
Example Refine_concrete :
  let c := run ex_hist core_init in
  let s := snd (brun 5 ex_enc ex_venc ex_hist core_init []) in
  Refines 5 ex_enc ex_venc c s
  /\ point_get (best_of_core c 4) (rcx 5 4) (ex_enc 0) s = Some (ex_venc 200)
  /\ point_get (best_of_core c 3) (rcx 5 3) (ex_enc 2) s = None
  /\ get_range (best_of_core c 2) (rcx 5 2) (min_tkey 177) (max_tkey 177) s
     = Ok [(ex_enc 0, ex_venc 200); (ex_enc 2, ex_venc 7); (ex_enc 3, [])]
  /\ point_get (best_of_core c 4) (rcx 5 4) (ex_enc 3) s = Some []      (* an empty value is a value *)
  /\ length s = 5%nat.
Proof.
  split; [|vm_compute; repeat split].
  apply (Refine_history 5 ex_enc ex_venc); [unfold id_ok; reflexivity|exact ex_enc_inj|vm_compute; discriminate].
Qed.

(* ==== Round 4 ==== *)
(* (7) the executable abstract answers.  [interval_keys enc c lo hi]: the abstract keys that have an
   entry and encode into [lo, hi], ascending (insertion sort of a filter of the core's keys);
   [abs_get_range] / [abs_keys_in_range]: the abstract GETs of those keys at v, kept where a value is
   found, the first unresolved conflict failing the whole answer. *)
Theorem Refine_get_range_exec : forall i enc venc, id_ok i -> (forall k1 k2, enc k1 = enc k2 -> k1 = k2) ->
  (forall k1 k2, prefix_free_pair (enc k1) (enc k2)) ->
  forall c s, Refines i enc venc c s -> CoreInv c -> forall v lo hi,
  (forall k, prefix_free_pair lo (enc k)) -> (forall k, prefix_free_pair hi (enc k)) ->
  prefix_free_pair lo hi -> lex_le lo hi ->
  get_range (best_of_core c v) (rcx i v) lo hi s
  = res_map (map (fun kx => (enc (fst kx), venc (snd kx)))) (abs_get_range enc c v lo hi).
Proof. exact refine_get_range_abs. Qed.
Print Assumptions Refine_get_range_exec.

(* the keys-only variant (KeysInRange; closes "keys-only range variant" of the to-do list) *)
Theorem Refine_keys_in_range : forall i enc venc, id_ok i -> (forall k1 k2, enc k1 = enc k2 -> k1 = k2) ->
  (forall k1 k2, prefix_free_pair (enc k1) (enc k2)) ->
  forall c s, Refines i enc venc c s -> CoreInv c -> forall v lo hi,
  (forall k, prefix_free_pair lo (enc k)) -> (forall k, prefix_free_pair hi (enc k)) ->
  prefix_free_pair lo hi -> lex_le lo hi ->
  keys_in_range (best_of_core c v) (rcx i v) lo hi s = res_map (map enc) (abs_keys_in_range enc c v lo hi).
Proof. exact refine_keys_in_range_abs. Qed.
Print Assumptions Refine_keys_in_range.

(* what the listing contains: the keys of the interval whose abstract GET at v finds a value *)
Theorem Refine_listed_keys : forall enc, (forall k1 k2, enc k1 = enc k2 -> k1 = k2) ->
  forall c, CoreInv c -> forall v lo hi ks, abs_keys_in_range enc c v lo hi = Ok ks ->
  forall k, In k ks <-> (lex_le lo (enc k) /\ lex_le (enc k) hi /\ exists u x, get c k v = RFound u x).
Proof. exact abs_keys_in_range_spec. Qed.
Print Assumptions Refine_listed_keys.

(* (8) the keyvalue endpoints.  Abstract key n is the key string [kstr n] (injective, no byte 0,
   not empty); its TKey is keyvalue.NewTKey (kv_enc kstr n = kv_tkey (kstr n)); listings are decoded
   by DecodeTKey (decode_term_tkey, C06_decode_tkey).  Interval ends are any NUL-free strings a <= b;
   by C05_string_order the TKey interval is the string interval. *)
Theorem Refine_kv_get_data : forall i kstr venc, id_ok i -> (forall k1 k2, kstr k1 = kstr k2 -> k1 = k2) ->
  (forall k, ~ In 0 (kstr k)) ->
  forall c s, Refines i (kv_enc kstr) venc c s -> CoreInv c -> forall v k,
  kv_get_data (best_of_core c v) (rcx i v) (kstr k) s = Ok (point_of venc (get c k v)).
Proof. exact refine_kv_get_data. Qed.
Print Assumptions Refine_kv_get_data.

Theorem Refine_kv_keys : forall i kstr venc, id_ok i -> (forall k1 k2, kstr k1 = kstr k2 -> k1 = k2) ->
  (forall k, ~ In 0 (kstr k)) -> (forall k, kstr k <> []) ->
  forall c s, Refines i (kv_enc kstr) venc c s -> CoreInv c -> forall v,
  kv_keys (best_of_core c v) (rcx i v) s
  = res_map (map kstr) (abs_keys_in_range (kv_enc kstr) c v (min_tkey 177) (max_tkey 177)).
Proof. exact refine_kv_keys. Qed.
Print Assumptions Refine_kv_keys.

(* ... where the class bounds enclose every key: all abstract keys are candidates *)
Theorem Refine_kv_keys_all : forall kstr c,
  interval_keys (kv_enc kstr) c (min_tkey 177) (max_tkey 177) = sort_by (kv_enc kstr) (core_keys c).
Proof. exact kv_keys_all. Qed.
Print Assumptions Refine_kv_keys_all.

Theorem Refine_kv_keyrange : forall i kstr venc, id_ok i -> (forall k1 k2, kstr k1 = kstr k2 -> k1 = k2) ->
  (forall k, ~ In 0 (kstr k)) -> (forall k, kstr k <> []) ->
  forall c s, Refines i (kv_enc kstr) venc c s -> CoreInv c -> forall v a b,
  ~ In 0 a -> ~ In 0 b -> lex_le a b ->
  kv_keyrange (best_of_core c v) (rcx i v) a b s
  = res_map (map kstr) (abs_keys_in_range (kv_enc kstr) c v (kv_tkey a) (kv_tkey b)).
Proof. exact refine_kv_keyrange. Qed.
Print Assumptions Refine_kv_keyrange.

Theorem Refine_kv_keyrangevalues : forall i kstr venc, id_ok i -> (forall k1 k2, kstr k1 = kstr k2 -> k1 = k2) ->
  (forall k, ~ In 0 (kstr k)) -> (forall k, kstr k <> []) ->
  forall c s, Refines i (kv_enc kstr) venc c s -> CoreInv c -> forall v a b,
  ~ In 0 a -> ~ In 0 b -> lex_le a b ->
  kv_keyrangevalues (best_of_core c v) (rcx i v) a b s
  = res_map (map (fun kx => (kstr (fst kx), venc (snd kx)))) (abs_get_range (kv_enc kstr) c v (kv_tkey a) (kv_tkey b)).
Proof. exact refine_kv_keyrangevalues. Qed.
Print Assumptions Refine_kv_keyrangevalues.

(* (9) DeleteRange as an abstract operation ([core_delete_range]: a tombstone at v for every key
   the keys-only listing of [lo, hi] at v reports; defined beside the core machine, Model.Core is
   unchanged).  When no key of the interval is in unresolved conflict at v (the abstract operation
   is Ok), BadgerDB.DeleteRange succeeds and its result refines the abstract result. *)
Theorem Refine_delete_range : forall i enc venc, id_ok i -> (forall k1 k2, enc k1 = enc k2 -> k1 = k2) ->
  (forall k1 k2, prefix_free_pair (enc k1) (enc k2)) ->
  forall c s, Refines i enc venc c s -> CoreInv c -> forall v lo hi, id_ok v ->
  (forall k, prefix_free_pair lo (enc k)) -> (forall k, prefix_free_pair hi (enc k)) ->
  prefix_free_pair lo hi -> lex_le lo hi ->
  forall c', core_delete_range enc c v lo hi = Ok c' ->
  exists s', delete_range (best_of_core c v) (rcx i v) lo hi s = Ok s' /\ Refines i enc venc c' s'.
Proof. exact refine_delete_range. Qed.
Print Assumptions Refine_delete_range.

(* its effect on every abstract read: the deleted keys read as absent at v ... *)
Theorem Refine_delete_absent : forall c, CoreInv c -> forall v ks k,
  In k ks -> get (core_delete_keys c v ks) k v = RNone.
Proof. exact delete_keys_get_self. Qed.
Print Assumptions Refine_delete_absent.

(* ... and at a child of v that has no entry of its own (deeper single-parent descendants by
   iterating Refine_get_inherit) ... *)
Theorem Refine_delete_absent_child : forall c, CoreInv c -> forall v ks k d,
  In k ks -> cpar c d = [v] -> ent_of c k d = None -> get (core_delete_keys c v ks) k d = RNone.
Proof. exact delete_keys_get_child. Qed.
Print Assumptions Refine_delete_absent_child.

Theorem Refine_get_inherit : forall c k d p, CoreInv c -> cpar c d = [p] -> ent_of c k d = None ->
  get c k d = get c k p.
Proof. exact core_get_inherit. Qed.
Print Assumptions Refine_get_inherit.

(* ... while other keys everywhere, and all keys at every version that is not v or a descendant of
   v (ancestors, siblings, unrelated branches), read what they read before *)
Theorem Refine_delete_unchanged : forall c, CoreInv c -> forall v ks k u,
  (~ In k ks \/ ~ anc (cpar c) v u) -> get (core_delete_keys c v ks) k u = get c k u.
Proof. exact delete_keys_get_other. Qed.
Print Assumptions Refine_delete_unchanged.

Theorem Refine_delete_keeps_inv : forall c v ks, CoreInv c -> CoreInv (core_delete_keys c v ks).
Proof. exact core_delete_keys_inv. Qed.
Print Assumptions Refine_delete_keeps_inv.

(* ---- instantiation: key strings "k", "ka", "kaa", ... ---- *)
Definition ex_kstr (n : N) : bytes := 107 :: repeat 97 (N.to_nat n).
Example ex_kstr_inj : forall k1 k2, ex_kstr k1 = ex_kstr k2 -> k1 = k2.
Proof.
  intros k1 k2 E. inversion E as [H]. apply (f_equal (@length N)) in H. rewrite !repeat_length in H. now apply N2Nat.inj.
Qed.
Example ex_kstr_nul : forall k, ~ In 0 (ex_kstr k).
Proof. intros k [H|H]; [discriminate|]. apply repeat_spec in H. discriminate. Qed.
Example ex_kstr_ne : forall k, ex_kstr k <> [].
Proof. discriminate. Qed.

(* the history of Refine_concrete, then version 4 (the merge) is read through the endpoints and a
   DeleteRange over ["k", "kaa"] is run on it on both sides *)
Example Refine_kv_concrete :
  let c := run ex_hist core_init in
  let s := snd (brun 5 (kv_enc ex_kstr) ex_venc ex_hist core_init []) in
  Refines 5 (kv_enc ex_kstr) ex_venc c s /\ CoreInv c
  /\ kv_keys (best_of_core c 2) (rcx 5 2) s = Ok [ex_kstr 0; ex_kstr 2; ex_kstr 3]
  /\ abs_keys_in_range (kv_enc ex_kstr) c 2 (min_tkey 177) (max_tkey 177) = Ok [0; 2; 3]
  /\ kv_keyrange (best_of_core c 3) (rcx 5 3) [107] [107; 97; 97] s = Ok [ex_kstr 0]
  /\ abs_keys_in_range (kv_enc ex_kstr) c 3 (kv_tkey [107]) (kv_tkey [107; 97; 97]) = Ok [0]
  /\ kv_get_data (best_of_core c 4) (rcx 5 4) (ex_kstr 0) s = Ok (Some (ex_venc 200))
  /\ kv_keyrangevalues (best_of_core c 2) (rcx 5 2) [107; 97] [107; 122] s = Ok [(ex_kstr 2, ex_venc 7); (ex_kstr 3, [])]
  /\ (exists c', core_delete_range (kv_enc ex_kstr) c 4 (kv_tkey [107]) (kv_tkey [107; 97; 97]) = Ok c'
                 /\ get c' 0 4 = RNone /\ get c' 3 4 = get c 3 4 /\ get c' 0 2 = get c 0 2
                 /\ delete_range (best_of_core c 4) (rcx 5 4) (kv_tkey [107]) (kv_tkey [107; 97; 97]) s
                    = Ok (snd (brun 5 (kv_enc ex_kstr) ex_venc [ODel 0 4] c s))).
Proof.
  split; [|split].
  - apply (Refine_history 5 (kv_enc ex_kstr) ex_venc); [unfold id_ok; reflexivity| |vm_compute; discriminate].
    exact (kv_enc_inj ex_kstr ex_kstr_inj).
  - apply core_inv_run. exact core_inv_init.
  - vm_compute. repeat split. eexists. repeat split.
Qed.
