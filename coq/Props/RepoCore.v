(* RepoCore — the repo manager machine (C07: Model/Repo.v) and the versioned key-value core
   (C01/C02/C05/C19: Model/Core.v) are one machine.  Not one of the twenty properties: it is the
   hinge that lets Core's history theorems speak about histories of the real request language.
   In Core the answer of the server to a commit / child-creation request is an input flag
   ([OCommit v accepted], [OChild parents accepted]); here it is computed by Model.Repo.

   [core_of s r st] views repo object r of manager state s (with key-value store st) as a Core
   state; [view_ok c s i]: c shows node set, committed set, ordered parents and next version id of
   repo i of s; [xop] = a Core operation or an id gap ([XSkip]: version ids are global to the
   manager, other repos consume some); [dag_xop]: an accepted commit, an accepted child creation,
   or a gap.  Only statements, closed by [exact]. *)
From DV Require Import Base.Prelude Model.Dag Model.Resolve Model.Core Proofs.Resolve Proofs.Core
     Model.Repo Model.RepoInv Proofs.Repo Model.RepoCore Proofs.RepoCore.
From Coq Require Import String Ascii.
From stdpp Require Import gmap strings.
Local Notation cget := Model.Core.get.

(* (1) RepoInv supplies the hypothesis of every Core theorem (CoreInv: nodes below the counter,
   committed nodes are nodes, every parent is committed and has a smaller id -- hence acyclic) *)
Theorem RepoCore_projection_inv : forall s i R r st,
  RepoInv s -> st_roots s !! i = Some R -> st_repos s !! i = Some r -> CoreInv (core_of s r st).
Proof. exact core_of_inv. Qed.
Print Assumptions RepoCore_projection_inv.

Theorem RepoCore_projection_view : forall s i r st, st_repos s !! i = Some r -> view_ok (core_of s r st) s i.
Proof. exact core_of_view. Qed.
Print Assumptions RepoCore_projection_view.

(* ... for every request sequence from the initial state *)
Theorem RepoCore_reachable_inv : forall rs i R r st, oracles_ok repaired init rs ->
  let s := Model.Repo.run repaired init rs in
  st_roots s !! i = Some R -> st_repos s !! i = Some r -> CoreInv (core_of s r st).
Proof. intros rs i R r st O s. apply core_of_inv. now apply inv_reachable. Qed.
Print Assumptions RepoCore_reachable_inv.

(* so every read there is C01's frontier read *)
Theorem RepoCore_reachable_read_spec : forall rs i R r st k v, oracles_ok repaired init rs ->
  let s := Model.Repo.run repaired init rs in
  st_roots s !! i = Some R -> st_repos s !! i = Some r ->
  read_spec (cpar (core_of s r st)) (ent_of (core_of s r st) k) v (cget (core_of s r st) k v).
Proof. exact reachable_get_spec. Qed.
Print Assumptions RepoCore_reachable_read_spec.

(* (2) simulation, request by request.  For every request kind but resolve the operations are
   given by [req_xs]: a commit answered Done on a node of repo i is [OCommit v true]; a
   newversion / branch answered Done is [OChild [parent] true]; a merge answered Done is
   [OChild parents true]; a tag answered Done is the child followed by its commit; a refused
   request is no operation; a creation in another repo (or a new repo) is an id gap; every other
   request kind (note, log, data instances, repo deletion) is no operation. *)
Theorem RepoCore_simulation_exact : forall s r c i xs,
  RepoInv s -> view_ok c s i -> req_xs s i r = Some xs ->
  Forall dag_xop xs /\ view_ok (xrun xs c) (fst (Model.Repo.step repaired s r)) i.
Proof. exact sim_step_exact. Qed.
Print Assumptions RepoCore_simulation_exact.

(* resolve included (its operations depend on which parents conflict: child creations on
   "conflict-" branches, their commits, then the merge) *)
Theorem RepoCore_simulation : forall s r c i,
  RepoInv s -> oracle_ok s r -> view_ok c s i ->
  exists xs, Forall dag_xop xs /\ view_ok (xrun xs c) (fst (Model.Repo.step repaired s r)) i.
Proof. exact sim_step. Qed.
Print Assumptions RepoCore_simulation.

(* the shapes promised above, on the primitives *)
Theorem RepoCore_commit_is_OCommit : forall s u c i,
  view_ok c s i -> view_ok (xrun (commit_xs s u i) c) (fst (do_commit s u)) i.
Proof. exact sim_commit. Qed.
Theorem RepoCore_new_version_is_OChild : forall s u b a f c i, RepoInv s -> view_ok c s i ->
  view_ok (xrun (new_version_xs s u i (snd (do_new_version repaired s u b a f))) c)
          (fst (do_new_version repaired s u b a f)) i.
Proof. exact sim_new_version. Qed.
Theorem RepoCore_merge_is_OChild : forall s ps f c i, RepoInv s -> view_ok c s i ->
  view_ok (xrun (merge_xs s ps i (snd (do_merge repaired s ps f))) c) (fst (do_merge repaired s ps f)) i.
Proof. exact sim_merge. Qed.

(* id gaps are invisible to Core: invariant, committed set and every read are unchanged *)
Theorem RepoCore_gap_invisible : forall c n k v, CoreInv c ->
  CoreInv (skip_to c n) /\ cget (skip_to c n) k v = cget c k v.
Proof. intros c n k v I. split; [now apply skip_inv|now apply skip_get]. Qed.
Print Assumptions RepoCore_gap_invisible.

(* histories of the real request language ([hreq]: repo requests and key-value reads/writes;
   [hrun]: the manager takes the repo requests, the Core state follows by accepted operations and
   keeps showing repo i).  Every such history can be run ... *)
Theorem RepoCore_history_total : forall i hs s c,
  RepoInv s -> CoreInv c -> view_ok c s i -> horacles_ok s hs ->
  Forall (fun h => match h with HData o => data_op o | _ => True end) hs ->
  exists y, hrun i (s, c) hs y.
Proof. exact hrun_total. Qed.
Print Assumptions RepoCore_history_total.

(* ... and along it both invariants and the view are kept and committed versions read the same *)
Theorem RepoCore_history_invariants : forall i hs s c s' c',
  RepoInv s -> horacles_ok s hs -> CoreInv c -> view_ok c s i -> hrun i (s, c) hs (s', c') ->
  RepoInv s' /\ CoreInv c' /\ view_ok c' s' i /\
  forall k v, In v (locked c) -> cget c' k v = cget c k v.
Proof. exact hrun_invariants. Qed.
Print Assumptions RepoCore_history_invariants.

(* The corollary (C01_history_committed_reads_stable / C02_committed_reads_stable transferred):
   take any reachable manager state, any of its repos, any committed version v of it; whatever
   sequence of repo requests (any kind, any repo, any arguments, accepted or refused) and data
   writes follows, v reads what it read. *)
Theorem RepoCore_committed_reads_stable : forall rs i R r st v n hs s' c' k,
  oracles_ok repaired init rs ->
  let s := Model.Repo.run repaired init rs in
  st_roots s !! i = Some R -> st_repos s !! i = Some r ->
  r_nodes r !! v = Some n -> n_locked n = true ->
  horacles_ok s hs -> hrun i (s, core_of s r st) hs (s', c') ->
  cget c' k v = cget (core_of s r st) k v /\ view_ok c' s' i.
Proof. exact committed_reads_stable. Qed.
Print Assumptions RepoCore_committed_reads_stable.

(* non-vacuity: the history of Props/C07 (two branches, tag, merge, resolve with a conflict, second
   repo, repo deletion) projects to a Core state with 7 nodes, 6 of them committed, in which the
   merge node 5 has the ordered parents [2;3] *)
Definition hist : list req :=
  (prelude ++
  [RNewData (U u3) true "d1"; RCommit (U u3); RTag (U u2) "v1.0";
   RMerge (U u2) true [U u2; U u3] u4;
   RResolve (U u1) [("d1", [(1%nat, u5)])] [U u2; U u3] u6])%list.
Example RepoCore_example :
  match st_repos (Model.Repo.run repaired init hist) !! 1%N with
  | Some r => let c := core_of (Model.Repo.run repaired init hist) r [] in
              (length (nodes c), length (locked c), parents_of (dag c) 5%N, next c)
  | None => (0%nat, 0%nat, [], 0%N)
  end = (7%nat, 5%nat, [2%N; 3%N], 8%N).
Proof. vm_compute. reflexivity. Qed.
