(* C08 — Label indices, voxels and mappings stay consistent under proofreading.
   Only statements, each closed by [exact] of a lemma proved in Proofs/, and Print Assumptions.

   Reading guide.
   * Model.Index     : the label index algebra (labels.Index.Add / Cleave / ModifyBlocks,
                       splitSupervoxelIndex, CalcNumLabels, aggregateBlockChanges).
   * Model.LabelMap  : [fstate] = what one version sees (stored supervoxel blocks, supervoxel ->
                       body mapping, label indices); [fstep] = one mutation endpoint;
                       [mstate]/[mstep] = the versioned store and vmap entries, [view s v] = the flat
                       state version v resolves to.
   * [Consistent st] : for every body l, block b, supervoxel s the index of l holds
                       (if s <> 0 and s maps to l then the number of stored voxels of s in b else 0);
                       no index for body 0; stored indices have unique keys, no zero count, are not empty.
   * [op_guard]      : the documented contracts (block ingest only onto unwritten blocks, merge
                       target not among the merged, new ids unused, written labels live or unused).
   The theorems are about the code with repo_patches/C08-{1,2,3}-fix applied ([fx_*] = true);
   C08_unrepaired_* show what the code as it stood does. *)
From DV Require Import Base.Prelude Model.Index Model.LabelMap
     Proofs.Index Proofs.LabelMap Proofs.LabelMapVersions Proofs.LabelMapReads Proofs.LabelMapExamples.
Local Open Scope N_scope.

(* ------------------------------------------------------------------ layer 1: index algebra *)
(* Index.Add is the pointwise sum and keeps the total. *)
Theorem C08_index_add : forall i1 i2 i,
  idx_add i1 i2 = Ok i ->
  (forall b s, cnt i b s = cnt i1 b s + cnt i2 b s) /\ num_voxels i = num_voxels i1 + num_voxels i2.
Proof. intros i1 i2 i H. exact (conj (idx_add_cnt i1 i2 i H) (idx_add_num i1 i2 i H)). Qed.
Print Assumptions C08_index_add.

(* Index.Cleave partitions the supervoxel set and conserves the counts. *)
Theorem C08_index_cleave : forall idx svs,
  let '(csize, rsize, cidx, ridx) := idx_cleave idx svs in
  (forall b s, cnt cidx b s = if memN s svs then cnt idx b s else 0) /\
  (forall b s, cnt ridx b s = if memN s svs then 0 else cnt idx b s) /\
  (forall s, sv_in cidx s = sv_in idx s && memN s svs) /\
  (forall s, sv_in ridx s = sv_in idx s && negb (memN s svs)) /\
  csize = num_voxels cidx /\ rsize = num_voxels ridx /\ csize + rsize = num_voxels idx /\
  (Wf idx -> Wf cidx /\ Wf ridx).
Proof. exact idx_cleave_spec. Qed.
Print Assumptions C08_index_cleave.

(* Index.ModifyBlocks applies the signed deltas exactly (no wrap, never negative) whenever every
   resulting count fits in uint32; changes of supervoxels it does not accept are dropped. *)
Theorem C08_index_modify_blocks : forall label idx sc members,
  let l := flat_changes (accepts label idx members) sc in
  NoDup (map fst l) ->
  (forall s b d, In (s, b, d) l -> (- 2 ^ 31 <= d < 2 ^ 31)%Z /\ (0 <= Z.of_N (cnt idx b s) + d < 2 ^ 32)%Z) ->
  exists idx', modify_blocks label idx sc members = Ok idx' /\
    forall b s, Z.of_N (cnt idx' b s) = (Z.of_N (cnt idx b s) + dsum l s b)%Z.
Proof. exact modify_blocks_spec. Qed.
Print Assumptions C08_index_modify_blocks.

(* splitSupervoxelIndex moves exactly the split counts. *)
Theorem C08_index_split_supervoxel : forall idx sv split remain rl idx',
  Wf idx -> split <> remain -> split <> sv -> remain <> sv ->
  sv_in idx split = false -> sv_in idx remain = false ->
  (forall b n, aget N.eqb b rl = Some n -> 0 < n < 2 ^ 32) ->
  (forall b s, cnt idx b s < 2 ^ 32) ->
  split_sv_index idx sv split remain rl = Ok idx' ->
  Wf idx' /\
  (forall b, 0 < cnt idx b sv -> nb rl b <= cnt idx b sv) /\
  forall b s, cnt idx' b s =
              if 0 <? cnt idx b sv then split_formula sv split remain rl (cnt idx b sv) (cnt idx b s) b s
              else cnt idx b s.
Proof. exact split_sv_index_spec. Qed.
Print Assumptions C08_index_split_supervoxel.

(* splitIndex (body split): the kept and the new index together hold the old counts. *)
Theorem C08_index_split_conserves : forall idx bs sm r s,
  split_index idx bs sm = Ok (r, s) -> num_voxels r + num_voxels s = num_voxels idx.
Proof. exact split_index_conserves. Qed.
Print Assumptions C08_index_split_conserves.

(* CalcNumLabels is the per-label difference of voxel counts. *)
Theorem C08_calc_num_labels : forall cur prev s,
  zget s (calc_num_labels cur prev) = if s =? 0 then 0%Z else (Z.of_N (occ cur s) - Z.of_N (occo prev s))%Z.
Proof. exact calc_num_labels_spec. Qed.
Print Assumptions C08_calc_num_labels.

(* ------------------------------------------------------------------ layer 2: the machine *)
Theorem C08_consistent_init : Consistent f_empty /\ MWf m_init /\ MConsistent m_init.
Proof. exact (conj consistent_init mconsistent_init). Qed.
Print Assumptions C08_consistent_init.

(* consistent_step, one version: ingest, mutating write, POST index(es), POST mappings, merge,
   cleave, split-supervoxel, renumber and the split of a body (SplitLabels) keep the state
   consistent, for every layout and every split volume, under the contracts of [op_guard] (for the
   two ingest posts: "the posted data agrees with the voxels", made precise there; for the body
   split: [split_guard], spelled out in C08_split_guard_is below). *)
Theorem C08_consistent_step : forall fx n st o st',
  N.of_nat n < 2 ^ 31 -> Inv n st -> op_guard fx n st o ->
  fstep fx (mapped (f_map st)) st o = Ok st' -> Inv n st'.
Proof. exact consistent_step. Qed.
Print Assumptions C08_consistent_step.

(* the guard of OSplit body newl masks sm, in full: the new body id is non-zero and has no index; at
   most one mask per block; keys, split ids and remain ids of the split map are pairwise distinct;
   every supervoxel of the split map is non-zero and mapped to the body, its split and remain ids
   are non-zero and have no stored voxel; some voxel of a supervoxel of the split map lies under
   its block's mask (the split volume is not empty on the body). *)
Theorem C08_split_guard_is : forall fx n st body newl masks sm,
  op_guard fx n st (OSplit body newl masks sm) <->
  (newl <> 0 /\ get_idx st newl = None /\
   NoDup (map fst masks) /\
   NoDup (flat_map (fun e => [fst e; fst (snd e); snd (snd e)]) sm) /\
   (forall s sp re, In (s, (sp, re)) sm ->
      s <> 0 /\ mapped (f_map st) s = body /\
      (sp <> 0 /\ forall b, vcount st b sp = 0) /\ (re <> 0 /\ forall b, vcount st b re = 0)) /\
   (exists b s sp re, In (s, (sp, re)) sm /\
      0 < match aget N.eqb b (f_vox st) with
          | Some arr => count_masked arr (match aget N.eqb b masks with Some m => m | None => [] end) s
          | None => 0
          end)).
Proof. intros. reflexivity. Qed.
Print Assumptions C08_split_guard_is.

(* the boolean contract Model.LabelMapRun evaluates on every body split the server accepted in the
   driver's histories implies the guard *)
Theorem C08_split_guard_b_sound : forall st body newl masks sm,
  split_guard_b st body newl masks sm = true -> split_guard st body newl masks sm.
Proof. exact split_guard_b_sound. Qed.
Print Assumptions C08_split_guard_b_sound.

(* the body split alone: Consistent is kept (no bound on the block volume is needed) *)
Theorem C08_consistent_split : forall st body newl masks sm st',
  Consistent st -> split_guard st body newl masks sm ->
  f_split st body newl masks sm = Ok st' -> Consistent st'.
Proof. exact consistent_split. Qed.
Print Assumptions C08_consistent_split.

(* voxel conservation of the body split: the two bodies together have the size the body had, no
   supervoxel is listed by both, every other body keeps its index *)
Theorem C08_split_voxel_conservation : forall st body newl masks sm st',
  Consistent st -> split_guard st body newl masks sm ->
  f_split st body newl masks sm = Ok st' ->
  o_size st' body + o_size st' newl = o_size st body /\
  (forall x, ~ (In x (o_supervoxels st' body) /\ In x (o_supervoxels st' newl))) /\
  (forall l, l <> body -> l <> newl -> o_index st' l = o_index st l).
Proof. exact split_voxel_conservation. Qed.
Print Assumptions C08_split_voxel_conservation.

(* the sizes add up for every accepted split, guard or not (splitIndex loses nothing) *)
Theorem C08_split_sizes : forall st body newl masks sm st',
  newl <> body -> get_idx st newl = None ->
  f_split st body newl masks sm = Ok st' ->
  o_size st' body + o_size st' newl = o_size st body /\
  (forall l, l <> body -> l <> newl -> get_idx st' l = get_idx st l).
Proof. exact split_sizes. Qed.
Print Assumptions C08_split_sizes.

(* the scan lemmas behind it.  Relabelling a block: per label x, the voxels that keep x plus, for
   every split supervoxel s, its voxels under the mask if x is s's split id and its voxels outside
   the mask if x is s's remain id -- for every array, mask and split map with unique keys. *)
Theorem C08_occ_relabel_split : forall sm, NoDup (map fst sm) -> forall arr mask x,
  occ (relabel_split arr mask sm) x = relabel_count sm arr mask x.
Proof. exact occ_relabel_split. Qed.
Print Assumptions C08_occ_relabel_split.

(* splitIndex, pointwise: what the kept and the split-off index hold per block and supervoxel *)
Theorem C08_split_index_spec : forall sm bs,
  NoDup (map fst sm) -> NoDup (map (fun e => fst (snd e)) sm) -> NoDup (map (fun e => snd (snd e)) sm) ->
  (forall b s sp n, aget key_eqb (b, s) bs = Some (sp, n) -> 0 < n /\ exists re, aget N.eqb s sm = Some (sp, re)) ->
  forall idx ridx sidx, Wf idx ->
  (forall s sp re, In (s, (sp, re)) sm -> sv_in idx re = false) ->
  split_index idx bs sm = Ok (ridx, sidx) ->
  Wf ridx /\ Wf sidx /\
  (forall b x, cnt ridx b x = rem_formula sm bs idx b x) /\
  (forall b x, cnt sidx b x = spl_formula sm bs idx b x).
Proof. exact split_index_spec. Qed.
Print Assumptions C08_split_index_spec.

(* non-vacuity: a consistent state, a split whose guard holds, accepted, and what it answers *)
Example C08_split_example :
  exists st', Inv 4 exS0 /\ op_guard all_fixed 4 exS0 exSplit /\
              fstep all_fixed (mapped (f_map exS0)) exS0 exSplit = Ok st' /\ Inv 4 st' /\
              (o_size exS0 1, o_size st' 1, o_size st' 10, o_supervoxels st' 1, o_supervoxels st' 10,
               aget N.eqb 0 (f_vox st')) = (2, 1, 1, [12], [11], Some [11; 12; 2; 0]).
Proof. exact split_example. Qed.

(* not closed as a single step: ingest-supervoxels (no indexing: the state after it is inconsistent
   until the indices follow -- the bulk load as a whole is C08_offline_ingest_consistent below). *)
Theorem C08_consistent_step_partial : forall fx n st o st',
  N.of_nat n < 2 ^ 31 -> Inv n st ->
  match o with
  | OStore _ => Inv n st'
  | _ => op_guard fx n st o
  end ->
  fstep fx (mapped (f_map st)) st o = Ok st' -> Inv n st'.
Proof. exact consistent_step_partial. Qed.
Print Assumptions C08_consistent_step_partial.

(* a state whose index table is the scan of its voxels under its mapping is consistent. *)
Theorem C08_scanned_consistent : forall st,
  NoDup (map fst (f_vox st)) ->
  (forall b arr s, In (b, arr) (f_vox st) -> In s arr -> s <> 0 -> mapped (f_map st) s <> 0) ->
  (forall l, get_idx st l = if memN l (scan_bodies (f_vox st) (f_map st))
                            then Some (scan_index (f_vox st) (f_map st) l) else None) ->
  Consistent st.
Proof. exact scanned_consistent. Qed.
Print Assumptions C08_scanned_consistent.

(* the bulk load onto an empty instance -- POST ingest-supervoxels, POST mappings, POST indices
   with the scanned indices -- is accepted and ends in a consistent state, for every layout; the
   only condition: no stored supervoxel is mapped to body 0. *)
Theorem C08_offline_ingest_consistent : forall fx blocks pairs,
  let vx := put_blocks [] blocks in
  let fm := fold_left (fun m p => aset N.eqb (fst p) (snd p) m) pairs [] in
  (forall b arr s, In (b, arr) vx -> In s arr -> s <> 0 -> mapped fm s <> 0) ->
  exists st', fsteps fx f_empty (offline_ops blocks pairs) = Ok st' /\
              f_vox st' = vx /\ f_map st' = fm /\ Consistent st'.
Proof. exact offline_ingest_consistent. Qed.
Print Assumptions C08_offline_ingest_consistent.

(* vmap.value over getDistFromRoot(GetAncestry v) is "the nearest ancestor that wrote". *)
Theorem C08_vmap_value_nearest_ancestor : forall a vm, NoDup a ->
  vmap_value (dist_from_root a) vm = match resolve a vm with Some x => (x, true) | None => (0, false) end.
Proof. exact vmap_value_resolve. Qed.
Print Assumptions C08_vmap_value_nearest_ancestor.

(* version_isolation: an operation at v is invisible at every version that does not descend from
   v (ancestors, siblings): their whole flat state, hence every observation, is unchanged. *)
Theorem C08_version_isolation : forall fx s v o s' u,
  MWf s -> mstep fx s (MData v o) = Ok s' -> ~ In v (anc s u) -> view s' u = view s u.
Proof. exact version_isolation. Qed.
Print Assumptions C08_version_isolation.

(* every state reachable from the empty repository by contract-respecting requests at leaf
   versions and by new versions with fresh ids is consistent at every version. *)
Theorem C08_consistent_history : forall fx n s,
  fx_maplabel fx = true -> N.of_nat n < 2 ^ 31 -> reach fx n s ->
  MWf s /\ forall u, Consistent (view s u) /\ Sized n (view s u).
Proof. exact reach_inv. Qed.
Print Assumptions C08_consistent_history.

(* ------------------------------------------------------------------ reads are scans *)
(* size/<l>, sizes, sparsevol-size, listlabels: NumVoxels of the index = voxels of the scan *)
Theorem C08_size_is_scan : forall st l,
  Consistent st -> NoDup (map fst (f_vox st)) -> o_size st l = scan_size st l.
Proof. exact size_is_scan. Qed.
Print Assumptions C08_size_is_scan.

(* supervoxels/<l>, supervoxel-sizes *)
Theorem C08_supervoxels_is_scan : forall st l s,
  Consistent st ->
  In s (o_supervoxels st l) <-> s <> 0 /\ mapped (f_map st) s = l /\ exists b, 0 < vcount st b s.
Proof. exact supervoxels_is_scan. Qed.
Print Assumptions C08_supervoxels_is_scan.

(* sparsevol/<l> (and sparsevol-coarse through the same blocks) *)
Theorem C08_sparse_is_scan : forall st l b i,
  Consistent st ->
  o_sparse st l b i = match aget N.eqb b (f_vox st) with
                      | Some arr => match nth_error arr i with
                                    | Some sv => negb (sv =? 0) && (mapped (f_map st) sv =? l)
                                    | None => false
                                    end
                      | None => false
                      end.
Proof. exact sparse_is_scan. Qed.
Print Assumptions C08_sparse_is_scan.

(* ------------------------------------------------------------------ voxel conservation *)
(* every stored non-zero voxel is counted in exactly one body, which exists and is not body 0 *)
Theorem C08_voxel_in_one_body : forall st b s,
  Consistent st -> s <> 0 -> 0 < vcount st b s ->
  let l := mapped (f_map st) s in
  l <> 0 /\ (exists idx, get_idx st l = Some idx /\ cnt idx b s = vcount st b s) /\
  forall l', l' <> l -> icnt st l' b s = 0.
Proof. exact voxel_in_one_body. Qed.
Print Assumptions C08_voxel_in_one_body.

(* body sizes sum to the non-zero voxel count *)
Theorem C08_sizes_sum_to_voxels : forall st Ls,
  Consistent st -> NoDup (map fst (f_vox st)) -> NoDup Ls ->
  (forall b arr x, In (b, arr) (f_vox st) -> In x arr -> x <> 0 -> In (mapped (f_map st) x) Ls) ->
  sumf (o_size st) Ls = nonzero_voxels st.
Proof. exact sizes_sum_to_voxels. Qed.
Print Assumptions C08_sizes_sum_to_voxels.

(* merge, cleave, renumber, index and mapping ingest touch no voxel; split-supervoxel only turns
   voxels of the split supervoxel into one of its two new ids *)
Theorem C08_voxels_untouched : forall fx aggl st o st',
  match o with OMerge _ _ | OCleave _ _ _ | ORenumber _ _ | OPutIndex _ _ | OPutMappings _ => True | _ => False end ->
  fstep fx aggl st o = Ok st' -> f_vox st' = f_vox st.
Proof. exact voxels_untouched. Qed.
Print Assumptions C08_voxels_untouched.

Theorem C08_split_supervoxel_voxels : forall st sv split remain masks rl st' b,
  f_splitsv st sv split remain masks rl = Ok st' ->
  match aget N.eqb b (f_vox st), aget N.eqb b (f_vox st') with
  | Some a, Some a' => Forall2 (fun x y => x = y \/ (x = sv /\ (y = split \/ y = remain))) a a'
  | None, None => True
  | _, _ => False
  end.
Proof. exact splitsv_voxels. Qed.
Print Assumptions C08_split_supervoxel_voxels.

(* ------------------------------------------------------------------ the code as it stood *)
(* C08-1: supervoxel 2 is merged into body 1 at version 2; a mutating write at the sibling
   version 1 removes one voxel of supervoxel 2: without the repair the index of body 2 at
   version 1 still counts 3 voxels for 2 stored ones.  (Histories: Proofs/LabelMapExamples.v.) *)
Theorem C08_unrepaired_maplabel_refuted :
  (match hist_maplabel unfixed with Ok s => o_size (view s 1) 2 | _ => 0 end) = 3 /\
  (match hist_maplabel all_fixed with Ok s => o_size (view s 1) 2 | _ => 0 end) = 2.
Proof. exact hist_maplabel_values. Qed.

(* C08-2: supervoxel 2 lives in body 1; renumbering body 3 to the id 2 maps supervoxel 2 to 0
   while body 1's index still counts it. *)
Theorem C08_unrepaired_renumber_refuted :
  (match hist_renumber unfixed with
   | Ok s => (mapped (f_map (view s 0)) 2, o_size (view s 0) 1) | _ => (9, 9) end) = (0, 4) /\
  hist_renumber all_fixed = Err.
Proof. exact hist_renumber_values. Qed.

(* C08-3: supervoxel 2 (merged into body 1) is erased, then written again: the voxels are stored
   and read as body 1 but the unrepaired index of body 1 does not count them. *)
Theorem C08_unrepaired_revive_refuted :
  (match hist_revive unfixed with Ok s => o_size (view s 0) 1 | _ => 0 end) = 1 /\
  (match hist_revive all_fixed with Ok s => o_size (view s 0) 1 | _ => 0 end) = 3.
Proof. exact hist_revive_values. Qed.

(* ------------------------------------------------------------------ non-vacuity *)
(* a reachable state with two versions, a merge and a cleave; its observations *)
Example C08_reachable_example :
  exists s, reach all_fixed 8 s /\
            o_size (view s 0) 1 = 4 /\ o_size (view s 1) 1 = 1 /\ o_size (view s 1) 10 = 3 /\
            mapped (f_map (view s 1)) 2 = 10 /\ mapped (f_map (view s 0)) 2 = 1.
Proof. exact reachable_example. Qed.

(* the bulk load run on two blocks with the agglomeration {2,3 -> 7} *)
Example C08_offline_example :
  match fsteps all_fixed f_empty (offline_ops [(0, [1; 2; 2; 0]); (5, [3; 3; 1; 2])] [(2, 7); (3, 7)]) with
  | Ok st => (o_size st 1, o_size st 7, get_idx st 2, get_idx st 7)
  | _ => (0, 0, None, None)
  end = (2, 5, None, Some [((0, 2), 2); ((5, 3), 2); ((5, 2), 1)]).
Proof. exact offline_example. Qed.
