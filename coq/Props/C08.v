(* C08 — placeholder while the layers are being built; replaced below. *)
From DV Require Import Base.Prelude Model.Index Model.LabelMap Proofs.Index.
Local Open Scope N_scope.
Theorem C08_index_cleave_partitions : forall idx svs,
  let '(csize, rsize, cidx, ridx) := idx_cleave idx svs in csize + rsize = num_voxels idx.
Proof. intros idx svs. pose proof (idx_cleave_spec idx svs) as H. unfold idx_cleave in *. tauto. Qed.
Print Assumptions C08_index_cleave_partitions.
