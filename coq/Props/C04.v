(* C04 — A crash at any write point is recoverable and loses no acknowledged work.
   Only statements, each closed by [exact] of a lemma proved in Proofs/, and Print Assumptions. *)
From DV Require Import Base.Prelude Base.Int Model.FileLog Proofs.FileLog Model.Persist Proofs.Persist.
From DV Require Import Model.VKey Proofs.VKey Gen.Locks.
Local Open Scope N_scope.

(* ---- part 1: the append-only log (storage/filelog/filelog.go) ---- *)

(* For every list of records, every byte length n at which the file can be left torn, and whatever
   lies in the spare capacity of the read buffer: the repaired ReadAll and StreamAll return exactly
   the records completely contained in the first n bytes (never a truncated, padded or invented
   record, never a panic, never out of fuel). *)
Theorem C04_log_prefix : forall (rs : list logmsg) (n : nat) (stale : bytes),
  Forall record_ok rs -> (n <= length (encode rs))%nat ->
  read_all_fixed (torn rs n stale) = LOk (complete_prefix rs n)
  /\ stream_all_fixed (torn rs n stale) = LOk (complete_prefix rs n).
Proof. exact log_prefix_fixed. Qed.
Print Assumptions C04_log_prefix.

(* The readers as they stand in the unrepaired code violate it: a panic, and a padded record. *)
Theorem C04_log_prefix_refuted :
  (exists rs n st, Forall record_ok rs /\ (n <= length (encode rs))%nat /\ read_all (torn rs n st) = LPanic)
  /\ (exists rs n st, Forall record_ok rs /\ (n <= length (encode rs))%nat /\
        read_all (torn rs n st) <> LOk (complete_prefix rs n) /\ read_all (torn rs n st) <> LPanic).
Proof. exact log_prefix_refuted_read. Qed.
Print Assumptions C04_log_prefix_refuted.

Theorem C04_log_prefix_stream_refuted :
  (exists rs n st, Forall record_ok rs /\ (n <= length (encode rs))%nat /\ stream_all (torn rs n st) = LPanic)
  /\ (exists rs n st, Forall record_ok rs /\ (n <= length (encode rs))%nat /\
        stream_all (torn rs n st) <> LOk (complete_prefix rs n) /\ stream_all (torn rs n st) <> LPanic).
Proof. exact log_prefix_refuted_stream. Qed.
Print Assumptions C04_log_prefix_stream_refuted.

(* ... and are right exactly when the cut does not fall inside a payload (record boundary or torn
   header); in particular an untorn log reads back what was appended. *)
Theorem C04_log_prefix_partial : forall rs n stale,
  Forall record_ok rs -> (n <= length (encode rs))%nat -> header_cut rs n = true ->
  read_all (torn rs n stale) = LOk (complete_prefix rs n).
Proof. exact log_prefix_header_cut. Qed.
Print Assumptions C04_log_prefix_partial.

Theorem C04_log_complete : forall rs stale,
  Forall record_ok rs -> read_all (torn rs (length (encode rs)) stale) = LOk rs.
Proof. exact log_complete. Qed.
Print Assumptions C04_log_complete.

(* Append issues two file writes whose concatenation is the record's encoding: the torn states of a
   log are exactly the prefixes quantified over above. *)
Theorem C04_append_is_two_writes : forall m, concat (append_writes m) = encode1 m.
Proof. exact append_writes_concat. Qed.
Print Assumptions C04_append_is_two_writes.

(* Non-vacuity: a two-record log cut inside its second payload. *)
Example C04_log_concrete :
  let rs := [(1, [10; 11]); (515, [20; 21; 22])] in
  encode rs = [1;0; 2;0;0;0; 10;11;  3;2; 3;0;0;0; 20;21;22]
  /\ Forall record_ok rs
  /\ read_all_fixed (torn rs 15 [0; 0; 0]) = LOk [(1, [10; 11])]
  /\ read_all (torn rs 15 [0; 0; 0]) = LOk [(1, [10; 11]); (515, [20; 0; 0])]
  /\ read_all (torn rs 15 []) = LPanic.
Proof.
  cbv zeta. split; [vm_compute; reflexivity|]. split.
  - repeat constructor; cbn; lia.
  - vm_compute. repeat split.
Qed.

(* Appending after a crash.  If the crash left the log cut on a record boundary, later appends read
   back correctly ... *)
Theorem C04_append_after_boundary : forall rs n after stale,
  Forall record_ok rs -> Forall record_ok after -> (n <= length (encode rs))%nat ->
  boundary_cut rs n = true ->
  read_all_fixed (torn_then_appended rs n after stale) = LOk (complete_prefix rs n ++ after).
Proof. exact append_after_boundary. Qed.
Print Assumptions C04_append_after_boundary.

(* With the engine trimming the torn tail before its first append (repo_patches/C04-4-fix.diff):
   for EVERY cut, records appended by the next process read back, in order, behind the completely
   written ones. *)
Theorem C04_append_after_crash : forall rs n after stale,
  Forall record_ok rs -> Forall record_ok after -> (n <= length (encode rs))%nat ->
  read_all_fixed (trimmed_then_appended rs n after stale) = LOk (complete_prefix rs n ++ after).
Proof. exact append_after_crash_fixed. Qed.
Print Assumptions C04_append_after_crash.

(* Without the trim (the code as it stood) a torn tail swallowed or mis-framed the later records,
   even with the repaired reader. *)
Theorem C04_append_after_torn_refuted :
  exists rs n after st, Forall record_ok rs /\ Forall record_ok after /\ (n <= length (encode rs))%nat /\
    read_all_fixed (torn_then_appended rs n after st) <> LOk (complete_prefix rs n ++ after).
Proof. exact append_after_torn_refuted. Qed.
Print Assumptions C04_append_after_torn_refuted.

(* ---- part 2: metadata write ordering (datastore/repo_local.go) ---- *)

(* crash_atomic.  For every manager/image pair satisfying the invariant [pinv] (which holds in every
   reachable state, next theorem), every operation (new repo, new version / branch, merge incl. its
   refused path, commit, new data, delete data, delete repo, new mutation id) and EVERY number k of
   its store writes that reached the disk before the process died: start-up succeeds, the manager
   it builds is well formed (every repo registered, every id in use below the counter that issues
   new ones) and it shows exactly the repos of before or exactly the repos of after the operation. *)
Theorem C04_crash_atomic : forall (C : pconf) (m : pmgr) (img : image) (o : pop) (k : nat),
  pinv m img = true ->
  let ws := snd (pstep C m o) in
  exists mb wb ma wa mr wr,
    recover C img = Ok (mb, wb) /\ recover C (apply_ws img ws) = Ok (ma, wa) /\
    recover C (apply_ws img (firstn k ws)) = Ok (mr, wr) /\ pwf mr = true /\
    (pobserve mr = pobserve mb \/ pobserve mr = pobserve ma).
Proof. exact crash_atomic. Qed.
Print Assumptions C04_crash_atomic.

(* The invariant holds after any history of operations, crashes at any write of any operation,
   restarts, and crashes at any write of the restarts themselves (any number of times), starting
   from an empty store whose first initialisation may itself be interrupted. *)
Theorem C04_reachable_invariant : forall C m img, preach C m img -> pinv m img = true.
Proof. exact preach_pinv. Qed.
Print Assumptions C04_reachable_invariant.

(* recover_idempotent_under_crash: a start-up killed after any prefix of its own writes, any number
   of times in a row, is followed by a start-up that shows the same repos and is well formed. *)
Theorem C04_recover_idempotent_under_crash : forall C img img2 mr wr,
  img_ok img = true -> recover C img = Ok (mr, wr) -> rec_chain C img img2 ->
  exists m2 w2, recover C img2 = Ok (m2, w2) /\ pobserve m2 = pobserve mr /\ pwf m2 = true.
Proof. exact recover_chain_same. Qed.
Print Assumptions C04_recover_idempotent_under_crash.

(* The very first initialisation killed after any of its four writes: the next start-up succeeds
   (re-initialising when nothing was written) and shows no repos. *)
Theorem C04_init_crash : forall C k, exists m wr,
  recover C (apply_ws empty_image (firstn k (init_writes C))) = Ok (m, wr) /\ pobserve m = [] /\ pwf m = true.
Proof. exact init_crash. Qed.
Print Assumptions C04_init_crash.

(* Instance deletion with the data store in the picture.  Repaired order (repo_patches/C04-5-fix.diff:
   the repo is saved without the instance FIRST, then its key-values go): every prefix of the writes
   shows the state before or the state after; the hypothesis says that the deleted instance's id is
   not the id of an instance that remains (ids are unique, C12). *)
Theorem C04_delete_data_atomic : forall C x m rid name n b r iid k,
  aget rid (m_repos m) = Some r -> aget name (pr_data r) = Some iid ->
  let ws := delete_data_writes_fixed m rid name n b in
  (forall mr wr, recover C (x_meta (apply_xs x ws)) = Ok (mr, wr) ->
     forall ib ni, In ib (m_repos mr) -> In ni (pr_data (snd ib)) -> snd ni <> iid) ->
  xobserve C (apply_xs x (firstn k ws)) = xobserve C x \/
  xobserve C (apply_xs x (firstn k ws)) = xobserve C (apply_xs x ws).
Proof. exact delete_data_fixed_atomic. Qed.
Print Assumptions C04_delete_data_atomic.

(* The order as it stood (key-values first, metadata last; the deleted flag lives in memory only):
   a crash in between showed the instance with none or part of its data. *)
Theorem C04_delete_data_refuted :
  pinv w_mgr w_img = true /\
  let ws := delete_data_writes w_mgr 1 5 4 10 in
  exists k, xobserve w_conf (apply_xs w_x (firstn k ws)) <> xobserve w_conf w_x /\
            xobserve w_conf (apply_xs w_x (firstn k ws)) <> xobserve w_conf (apply_xs w_x ws).
Proof. exact delete_data_refuted. Qed.
Print Assumptions C04_delete_data_refuted.

(* ---- below the store interface: the transactions of the badger store ----
   A process death keeps the transactions that committed and nothing of the one in flight.  The
   versioned Put and Delete of one key touch two stored keys (the value and the tombstone of the
   version): they are crash-atomic because each is ONE read-write transaction -- which is read off
   storage/badger on every run (table badger_txns of Gen/Locks.v). *)
Theorem C04_store_call_one_transaction :
  one_write_txn badger_txns = true /\
  lists_call name_put badger_txns = true /\ lists_call name_delete badger_txns = true.
Proof. exact generated_one_write_txn. Qed.
Print Assumptions C04_store_call_one_transaction.

(* a store call of one transaction: whatever a crash leaves is the state before or the state after *)
Theorem C04_one_transaction_crash_atomic : forall s (call : list txn) k,
  length call = 1%nat -> crash_state s call k = s \/ crash_state s call k = apply_txns s call.
Proof. exact one_txn_crash_atomic. Qed.
Print Assumptions C04_one_transaction_crash_atomic.

(* so every read, at every version, after a crash during Put / Delete is the read before or after *)
Theorem C04_put_crash_atomic : forall s ver x k path,
  vread (crash_state s (put_call ver x) k) path = vread s path \/
  vread (crash_state s (put_call ver x) k) path = vread (apply_txns s (put_call ver x)) path.
Proof. exact put_crash_atomic. Qed.
Print Assumptions C04_put_crash_atomic.

Theorem C04_delete_crash_atomic : forall s ver k path,
  vread (crash_state s (delete_call ver) k) path = vread s path \/
  vread (crash_state s (delete_call ver) k) path = vread (apply_txns s (delete_call ver)) path.
Proof. exact delete_crash_atomic. Qed.
Print Assumptions C04_delete_crash_atomic.

(* A Delete that commits the removal of the value before it writes the tombstone is not: a version
   with its own value over an ancestor's shows the ancestor's value in between. *)
Theorem C04_split_delete_refuted :
  vread w_vkey [2; 1] = Some 20 /\
  vread (apply_txns w_vkey (delete_call_split 2)) [2; 1] = None /\
  vread (apply_txns w_vkey (delete_call 2)) [2; 1] = None /\
  vread (crash_state w_vkey (delete_call_split 2) 1) [2; 1] = Some 10.
Proof. exact split_delete_refuted. Qed.
Print Assumptions C04_split_delete_refuted.

(* the table obligation can fail *)
Example C04_one_write_txn_can_fail :
  one_write_txn [(name_delete, 2, 1)]%nat = false /\ lists_call name_put [] = false.
Proof. vm_compute. split; reflexivity. Qed.

(* Non-vacuity: a reachable state with two repos, a merge and a deleted repo; a crash after the
   second of the four writes of a new version leaves a version-id entry that names no node: the next
   start drops it, saves the id maps, and shows the old repos. *)
Example C04_crash_concrete :
  let C := w_conf in
  let m0 := init_mgr C in
  let img0 := apply_ws empty_image (init_writes C) in
  let ops := [PNewRepo 11; PNewData 1 5; PCommit 1 1; PNewVersion 1 1 None 12; PNewVersion 1 1 (Some 3) 13;
              PCommit 1 2; PCommit 1 3; PMerge 1 [2; 3] 14; PNewRepo 15; PDeleteRepo 2; PCommit 1 4] in
  let '(m, wss) := prun C m0 ops in
  let img := apply_ws img0 (concat wss) in
  pinv m img = true /\
  map (fun ws => map wkind ws) wss =
    [[1;2;3;3;1;2;4;7]; [3;4]; [4]; [1;2;3;4]; [1;2;3;4]; [4]; [4]; [1;2;3;4]; [1;2;3;3;1;2;4;7]; [4;1;2]; [4]] /\
  match recover C (apply_ws img (firstn 2 (snd (pstep C m (PNewVersion 1 4 None 16))))) with
  | Ok (mr, wr) => pobserve mr = pobserve m /\ amem 6 (m_v2u mr) = false /\ m_vid mr = 6 /\ map wkind wr = [1; 2; 7]
  | _ => False
  end.
Proof. vm_compute. repeat split. Qed.
