(* C04 — A crash at any write point is recoverable and loses no acknowledged work.
   Only statements, each closed by [exact] of a lemma proved in Proofs/, and Print Assumptions. *)
From DV Require Import Base.Prelude Base.Int Model.FileLog Proofs.FileLog.
Local Open Scope N_scope.

(* ---- part 1: the append-only log (storage/filelog/filelog.go) ---- *)

(* For every list of records, every byte length n at which the file can be left torn, and whatever
   lies in the spare capacity of the read buffer: the repaired ReadAll and StreamAll return exactly
   the records completely contained in the first n bytes (never a truncated, padded or invented
   record, never a panic, never out of fuel). *)
Theorem C04_log_prefix : forall (rs : list logmsg) (n : nat) (stale : bytes),
  Forall record_ok rs -> (n <= length (encode rs))%nat ->
  read_all_fixed (torn rs n stale) = LOk (complete_prefix rs n)
  /\ stream_all_fixed (torn rs n stale) = LOk (complete_prefix rs n).
Proof. exact log_prefix_fixed. Qed.
Print Assumptions C04_log_prefix.

(* The readers as they stand in the unrepaired code violate it: a panic, and a padded record. *)
Theorem C04_log_prefix_refuted :
  (exists rs n st, Forall record_ok rs /\ (n <= length (encode rs))%nat /\ read_all (torn rs n st) = LPanic)
  /\ (exists rs n st, Forall record_ok rs /\ (n <= length (encode rs))%nat /\
        read_all (torn rs n st) <> LOk (complete_prefix rs n) /\ read_all (torn rs n st) <> LPanic).
Proof. exact log_prefix_refuted_read. Qed.
Print Assumptions C04_log_prefix_refuted.

Theorem C04_log_prefix_stream_refuted :
  (exists rs n st, Forall record_ok rs /\ (n <= length (encode rs))%nat /\ stream_all (torn rs n st) = LPanic)
  /\ (exists rs n st, Forall record_ok rs /\ (n <= length (encode rs))%nat /\
        stream_all (torn rs n st) <> LOk (complete_prefix rs n) /\ stream_all (torn rs n st) <> LPanic).
Proof. exact log_prefix_refuted_stream. Qed.
Print Assumptions C04_log_prefix_stream_refuted.

(* ... and are right exactly when the cut does not fall inside a payload (record boundary or torn
   header); in particular an untorn log reads back what was appended. *)
Theorem C04_log_prefix_partial : forall rs n stale,
  Forall record_ok rs -> (n <= length (encode rs))%nat -> header_cut rs n = true ->
  read_all (torn rs n stale) = LOk (complete_prefix rs n).
Proof. exact log_prefix_header_cut. Qed.
Print Assumptions C04_log_prefix_partial.

Theorem C04_log_complete : forall rs stale,
  Forall record_ok rs -> read_all (torn rs (length (encode rs)) stale) = LOk rs.
Proof. exact log_complete. Qed.
Print Assumptions C04_log_complete.

(* Append issues two file writes whose concatenation is the record's encoding: the torn states of a
   log are exactly the prefixes quantified over above. *)
Theorem C04_append_is_two_writes : forall m, concat (append_writes m) = encode1 m.
Proof. exact append_writes_concat. Qed.
Print Assumptions C04_append_is_two_writes.

(* Non-vacuity: a two-record log cut inside its second payload. *)
Example C04_log_concrete :
  let rs := [(1, [10; 11]); (515, [20; 21; 22])] in
  encode rs = [1;0; 2;0;0;0; 10;11;  3;2; 3;0;0;0; 20;21;22]
  /\ Forall record_ok rs
  /\ read_all_fixed (torn rs 15 [0; 0; 0]) = LOk [(1, [10; 11])]
  /\ read_all (torn rs 15 [0; 0; 0]) = LOk [(1, [10; 11]); (515, [20; 0; 0])]
  /\ read_all (torn rs 15 []) = LPanic.
Proof.
  cbv zeta. split; [vm_compute; reflexivity|]. split.
  - repeat constructor; cbn; lia.
  - vm_compute. repeat split.
Qed.

(* Appending after a crash.  If the crash left the log cut on a record boundary, later appends read
   back correctly ... *)
Theorem C04_append_after_boundary : forall rs n after stale,
  Forall record_ok rs -> Forall record_ok after -> (n <= length (encode rs))%nat ->
  boundary_cut rs n = true ->
  read_all_fixed (torn_then_appended rs n after stale) = LOk (complete_prefix rs n ++ after).
Proof. exact append_after_boundary. Qed.
Print Assumptions C04_append_after_boundary.

(* ... but after a torn tail record they do not, even with the repaired reader: nothing trims the
   torn bytes when the log is re-opened for appending.  Recorded as a known finding (the repair is a
   log-repair pass on open, not a small change). *)
Theorem C04_append_after_torn_refuted :
  exists rs n after st, Forall record_ok rs /\ Forall record_ok after /\ (n <= length (encode rs))%nat /\
    read_all_fixed (torn_then_appended rs n after st) <> LOk (complete_prefix rs n ++ after).
Proof. exact append_after_torn_refuted. Qed.
Print Assumptions C04_append_after_torn_refuted.
