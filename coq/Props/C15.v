(* C15 — The serialization envelope round-trips and detects corruption.
   Only statements, each closed by [exact] of a lemma proved in Proofs/, and Print Assumptions. *)
From DV Require Import Base.Prelude Base.Int Model.CRC Model.Envelope Gen.Consts Proofs.CRC Proofs.Envelope
  Proofs.CRCBurst Proofs.EnvelopeBurst.
Local Open Scope N_scope.

(* Any byte string (below the 4 GiB the LZ4 size prefix can express), any lossless format,
   with or without CRC32: deserialising what was serialised returns the identical bytes. *)
Theorem C15_roundtrip : forall (C : codecs) data comp lvl cks s,
  codec_law C -> bytes_ok data -> N.of_nat (length data) < 2^32 ->
  lossless comp -> checksum_ok cks ->
  serialize C data comp lvl cks = Ok s ->
  deserialize C s true = Ok (data, match data with [] => n_Uncompressed | _ => comp end).
Proof. intros C data comp lvl cks s. exact (roundtrip_gen C true data comp lvl cks s). Qed.
Print Assumptions C15_roundtrip.

(* Without decompression requested (and for SerializePrecompressedData): the stored payload comes
   back untouched together with its compression format, for any 3-bit format id. *)
Theorem C15_precompressed_roundtrip : forall (C : codecs) p comp cks s,
  p <> [] -> bytes_ok p -> comp < 8 -> checksum_ok cks ->
  serialize_pre p comp cks = Ok s -> deserialize C s false = Ok (p, comp).
Proof. intros C. exact (precompressed_roundtrip C true). Qed.
Print Assumptions C15_precompressed_roundtrip.

(* With a CRC32, a stored value whose payload differs in one byte position (any of the 255
   other byte values: every single-bit and single-byte corruption) is an error, whatever the
   compression format and whether or not decompression is requested. *)
Theorem C15_payload_corruption_detected : forall (C : codecs) f l1 b b' l2 u,
  dec_cks f = n_CRC32 -> bytes_ok (l1 ++ b :: l2) -> byte_ok b' -> b <> b' ->
  deserialize C (f :: le_enc 4 (crc32 (l1 ++ b :: l2)) ++ l1 ++ b' :: l2) u = Err.
Proof. intros C. exact (corrupt_payload_byte_detected C true). Qed.
Print Assumptions C15_payload_corruption_detected.

(* Round 4.  With a CRC32, a stored value whose payload was altered in ANY way confined to at most
   4 consecutive bytes (m replaced by any other m' of the same length <= 4: every burst of up to
   32 bits at byte alignment, anywhere in a payload of any length, any prefix l1 and suffix l2)
   is an error, never data. *)
Theorem C15_burst_corruption_detected : forall (C : codecs) f l1 m m' l2 u,
  dec_cks f = n_CRC32 -> bytes_ok (l1 ++ m ++ l2) -> bytes_ok m' ->
  length m' = length m -> (length m <= 4)%nat -> m <> m' ->
  deserialize C (f :: le_enc 4 (crc32 (l1 ++ m ++ l2)) ++ l1 ++ m' ++ l2) u = Err.
Proof. intros C. exact (corrupt_payload_burst4_detected C true). Qed.
Print Assumptions C15_burst_corruption_detected.

(* The same at arbitrary BIT alignment: the alteration is confined to 32 consecutive bits that
   start at bit j of one byte (bits below j of the first byte a are untouched, up to three whole
   bytes follow, and only bits below j of the last byte z are touched) - a window spanning 5 bytes. *)
Theorem C15_burst32_corruption_detected : forall (C : codecs) f j l1 a mid z a' mid' z' l2 u,
  dec_cks f = n_CRC32 -> (j <= 8)%nat ->
  bytes_ok (l1 ++ (a :: mid ++ [z]) ++ l2) -> bytes_ok (a' :: mid' ++ [z']) ->
  length mid' = length mid -> (length mid <= 3)%nat ->
  N.lxor a a' mod 2 ^ N.of_nat j = 0 -> N.lxor z z' < 2 ^ N.of_nat j ->
  a :: mid ++ [z] <> a' :: mid' ++ [z'] ->
  deserialize C (f :: le_enc 4 (crc32 (l1 ++ (a :: mid ++ [z]) ++ l2))
                   ++ l1 ++ (a' :: mid' ++ [z']) ++ l2) u = Err.
Proof. intros C. exact (corrupt_payload_burst32_detected C true). Qed.
Print Assumptions C15_burst32_corruption_detected.

(* The underlying facts about the CRC-32 model itself (what the driver compares with
   hash/crc32.ChecksumIEEE): the two checksums differ. *)
Theorem C15_crc32_burst_changes_checksum : forall l1 m m' l2,
  bytes_ok m -> bytes_ok m' -> length m' = length m -> (length m <= 4)%nat -> m <> m' ->
  crc32 (l1 ++ m ++ l2) <> crc32 (l1 ++ m' ++ l2).
Proof. exact crc32_burst4. Qed.
Print Assumptions C15_crc32_burst_changes_checksum.

Theorem C15_crc32_burst32_changes_checksum : forall j l1 a mid z a' mid' z' l2,
  (j <= 8)%nat -> bytes_ok (a :: mid ++ [z]) -> bytes_ok (a' :: mid' ++ [z']) ->
  length mid' = length mid -> (length mid <= 3)%nat ->
  N.lxor a a' mod 2 ^ N.of_nat j = 0 -> N.lxor z z' < 2 ^ N.of_nat j ->
  a :: mid ++ [z] <> a' :: mid' ++ [z'] ->
  crc32 (l1 ++ (a :: mid ++ [z]) ++ l2) <> crc32 (l1 ++ (a' :: mid' ++ [z']) ++ l2).
Proof. exact crc32_burst32. Qed.
Print Assumptions C15_crc32_burst32_changes_checksum.

(* Tightness: 32 bits is the limit.  Xor-ing the 33-bit generator polynomial (bytes 80 20 83 B8 ED)
   into any five consecutive bytes of any string leaves crc32 unchanged, so such an alteration of a
   stored payload is NOT detected (C15_burst33_concrete below; the driver checks that the Go
   library and DeserializeData agree with the model on this control too). *)
Theorem C15_burst33_undetected : forall l1 a b c d e l2,
  crc32 (l1 ++ [N.lxor a 128; N.lxor b 32; N.lxor c 131; N.lxor d 184; N.lxor e 237] ++ l2)
  = crc32 (l1 ++ [a; b; c; d; e] ++ l2).
Proof. exact crc32_burst33_undetected. Qed.
Print Assumptions C15_burst33_undetected.

(* Refuted strengthening: "every burst of at most 32 bits anywhere in the STORED VALUE is an error" is
   false - the burst theorems above are about the payload for a reason.  The checksum precedes the
   payload; altering stored bytes 2..5 (three checksum bytes and the first payload byte, 4 adjacent
   bytes) of the value for payload 01 02 03 04 05 yields a value that deserialises to other data.
   Reproduced on the Go code by the driver (corpus case "straddle"). *)
Theorem C15_stored_value_burst_refuted : forall (C : codecs) u,
  le_enc 4 (crc32 [1;2;3;4;5]) = [244;153;11;71] /\
  deserialize C [8; 244; 153;11;71;1; 2;3;4;5] u = Ok ([1;2;3;4;5], 0) /\
  deserialize C [8; 244; 98;45;36;150; 2;3;4;5] u = Ok ([150;2;3;4;5], 0).
Proof. intros C. exact (straddling_burst_undetected C true). Qed.
Print Assumptions C15_stored_value_burst_refuted.

Theorem C15_checksum_corruption_detected : forall (C : codecs) f k p u,
  dec_cks f = n_CRC32 -> bytes_ok p -> bytes_ok k -> length k = 4%nat ->
  k <> le_enc 4 (crc32 p) ->
  deserialize C (f :: k ++ p) u = Err.
Proof. intros C. exact (corrupt_checksum_detected C true). Qed.
Print Assumptions C15_checksum_corruption_detected.

Theorem C15_truncated_checksum_detected : forall (C : codecs) f rest u,
  dec_cks f = n_CRC32 -> (length rest < 4)%nat -> deserialize C (f :: rest) u = Err.
Proof. intros C. exact (truncated_header_detected C true). Qed.
Print Assumptions C15_truncated_checksum_detected.

(* No input makes deserialisation panic (given that the third-party decoders return errors
   rather than panic on malformed input). *)
Theorem C15_deserialize_total : forall (C : codecs) s u,
  no_codec_panic C -> deserialize C s u <> Panic.
Proof. exact deserialize_total. Qed.
Print Assumptions C15_deserialize_total.

(* The code as it stood before the repair (fix: commit recorded in known_findings.json)
   violated totality: an LZ4-tagged value with fewer than 4 payload bytes. *)
Theorem C15_unrepaired_refuted : forall C : codecs, deserialize_unguarded C [128] true = Panic.
Proof. exact deserialize_unguarded_panics. Qed.

(* Non-vacuity: the identity codec satisfies the laws, and a concrete CRC-protected LZ4
   envelope exercises every hypothesis. *)
Definition id_codec : codecs :=
  {| c_compress := fun _ _ d => Ok d; c_decompress := fun _ _ c => Ok c |}.
Example id_codec_law : codec_law id_codec /\ no_codec_panic id_codec.
Proof.
  split; [constructor|]; simpl.
  - intros comp lvl d c E. apply Ok_inj in E. now subst.
  - intros comp lvl d c Hd _ E. apply Ok_inj in E. now subst.
  - intros comp lvl d c Hd E. apply Ok_inj in E. now subst.
  - intros comp n c. discriminate.
Qed.
Example C15_concrete :
  serialize id_codec [1;2;3] n_LZ4 (-1) n_CRC32 = Ok [136; 236; 156; 121; 6; 3;0;0;0; 1;2;3]
  /\ deserialize id_codec [136; 236; 156; 121; 6; 3;0;0;0; 1;2;3] true = Ok ([1;2;3], n_LZ4)
  /\ deserialize id_codec [136; 236; 156; 121; 6; 3;0;0;0; 1;2;7] true = Err.
Proof. vm_compute. repeat split. Qed.

(* Non-vacuity of the burst theorems: the hypotheses are met by concrete stored values
   (payload 1..8 under CRC32, uncompressed; a 4-byte burst = xor with the polynomial bytes
   0xED 0xB8 0x83 0x20, and a 32-bit burst starting at bit 5 of byte 2). *)
Example C15_burst_concrete :
  let p := [1;2;3;4;5;6;7;8] in
  let s := 8 :: le_enc 4 (crc32 p) ++ p in
  deserialize id_codec s true = Ok (p, n_Uncompressed)
  /\ deserialize id_codec (8 :: le_enc 4 (crc32 p) ++ [1;2] ++ [238;188;134;37] ++ [7;8]) true = Err
  /\ deserialize id_codec (8 :: le_enc 4 (crc32 p) ++ [1] ++ (226 :: [252;251;250] ++ [25]) ++ [7;8]) true = Err.
Proof. vm_compute. repeat split. Qed.
Example C15_burst_hyps_inhabited :
  deserialize id_codec (8 :: le_enc 4 (crc32 ([1;2] ++ [3;4;5;6] ++ [7;8]))
                          ++ [1;2] ++ [238;188;134;37] ++ [7;8]) false = Err.
Proof.
  apply C15_burst_corruption_detected; try reflexivity; try discriminate;
    try (apply bytes_okb_ok; reflexivity).
Qed.
Example C15_burst32_hyps_inhabited :
  deserialize id_codec (8 :: le_enc 4 (crc32 ([1] ++ (2 :: [3;4;5] ++ [6]) ++ [7;8]))
                          ++ [1] ++ (226 :: [252;251;250] ++ [25]) ++ [7;8]) false = Err.
Proof.
  apply (C15_burst32_corruption_detected id_codec 8 5); try reflexivity; try discriminate;
    try (apply bytes_okb_ok; reflexivity); cbn; lia.
Qed.
Example C15_burst33_concrete :
  let p := [1;2;3;4;5;6;7;8] in
  deserialize id_codec (8 :: le_enc 4 (crc32 p) ++ [1;2] ++ [131;36;134;190;234] ++ [8]) true
  = Ok ([1;2;131;36;134;190;234;8], n_Uncompressed).
Proof. vm_compute. reflexivity. Qed.
