(* C14 — Lower-resolution label levels match the documented down-sampling.
   Only statements, each closed by [exact] of a lemma proved in Proofs/, and Print Assumptions. *)
From DV Require Import Base.Prelude Base.Int Base.BitPack Model.Block Model.Downres
     Model.BlockOps Proofs.BitPack Proofs.Block Proofs.BlockOps Proofs.Downres Proofs.DownresBlock Proofs.DownresLocks Gen.Consts Gen.DownresLocks.
From DV Require Import Model.DownresPyr Proofs.DownresPyr Gen.DownresArith.
From Coq Require Import Permutation.
Local Open Scope N_scope.

(* The vote over the (eight) labels under a lower-resolution voxel, as downresArray / DownresLabels
   compute it: 0 when all are 0; otherwise a non-zero label of the list with the most occurrences,
   the smallest such label on ties.  (Any list length.) *)
Theorem C14_vote_spec : forall ls,
  ((forall l, In l ls -> l = 0) -> vote ls = 0) /\
  ((exists l, In l ls /\ l <> 0) ->
   vote ls <> 0 /\ In (vote ls) ls /\
   forall l, l <> 0 -> occ l ls < occ (vote ls) ls \/ (occ l ls = occ (vote ls) ls /\ vote ls <= l)).
Proof. exact vote_spec. Qed.
Print Assumptions C14_vote_spec.

(* The Go code ranges over a map: the winner is the same for every iteration order. *)
Theorem C14_vote_order_independent : forall es es',
  Permutation es es' -> NoDup (map fst es) -> (forall e, In e es -> 0 < snd e) -> pick es = pick es'.
Proof. exact pick_order_independent. Qed.
Print Assumptions C14_vote_order_independent.

(* Execute restores the pyramid: from Pyr (every voxel of level n+1 = vote of the eight below, up to
   max), for ANY set T of touched level-0 blocks and ANY new content of those blocks, after the
   scale-by-scale update (a voxel of level n+1 is recomputed iff the block holding its children
   changed at level n; parents of changed blocks are the changed blocks of the next scale) Pyr holds
   again at every level.  Voxel coordinates are integers (negative included); B is the (even)
   block edge.  This is the repaired update: Block.Downres leaves untouched (nil) octants alone
   (C14-1-fix) and every changed block lands in a valid octant of its floor-halved parent
   (C14_octant_index_fixed, C14-2-fix). *)
Theorem C14_pyr_execute : forall B, (exists h, (0 < h)%Z /\ B = (2 * h)%Z) ->
  forall T L l0' max,
  Pyr L max ->
  (forall x y z, T (blk B x) (blk B y) (blk B z) = false -> l0' x y z = L O x y z) ->
  Pyr (after B T L l0' max) max.
Proof. exact pyr_execute. Qed.
Print Assumptions C14_pyr_execute.

(* getHiresChanges, repaired (c & 1): every block coordinate gets a valid octant of the parent
   c >> 1, and (parent, octant) determine the block. *)
Theorem C14_octant_index_fixed : forall x y z,
  exists i, hires_change true x y z = Ok (parent_coord x, parent_coord y, parent_coord z, i) /\ i < 8 /\
    Z.of_N i = (4 * (z - 2 * parent_coord z) + 2 * (y - 2 * parent_coord y) + (x - 2 * parent_coord x))%Z /\
    (0 <= x - 2 * parent_coord x <= 1)%Z /\ (0 <= y - 2 * parent_coord y <= 1)%Z /\ (0 <= z - 2 * parent_coord z <= 1)%Z.
Proof. exact hires_change_fixed. Qed.
Print Assumptions C14_octant_index_fixed.

(* REFUTED for the code as found (c % 2): a negative odd block coordinate gives a negative octant
   index (panic); for non-negative coordinates the two agree. *)
Theorem C14_octant_index_refuted :
  hires_change false (-1) (-1) (-1) = Panic /\ hires_change false (-1) 0 2 = Panic /\
  hires_change true (-1) (-1) (-1) = Ok ((-1)%Z, (-1)%Z, (-1)%Z, 7).
Proof. exact hires_change_negative_panics. Qed.
Print Assumptions C14_octant_index_refuted.

Theorem C14_octant_index_nonneg : forall x y z,
  (0 <= x)%Z -> (0 <= y)%Z -> (0 <= z)%Z -> hires_change false x y z = hires_change true x y z.
Proof. exact hires_change_nonneg. Qed.
Print Assumptions C14_octant_index_nonneg.

(* setBlank, repaired: the block is replaced by a solid one only when all octants are given and
   solid with one common label; with no nil octant the code as found does the same. *)
Theorem C14_set_blank_fixed : forall octs l,
  set_blank true octs = Some l -> Forall (fun o => solid_label o = Some l) octs.
Proof. exact set_blank_fixed_spec. Qed.
Print Assumptions C14_set_blank_fixed.

Theorem C14_set_blank_no_nil : forall octs,
  Forall (fun o => o <> None) octs -> set_blank false octs = set_blank true octs.
Proof. exact set_blank_no_nil. Qed.
Print Assumptions C14_set_blank_no_nil.

(* REFUTED for the code as found: one touched octant that is solid 0 and seven untouched octants
   over a 16x16x16 block of labels 5 and 6: all 4096 voxels change; repaired: the 512 of the octant. *)
Theorem C14_downres_blank_refuted :
  decode c14_witness_block = Ok c14_witness_array /\
  (exists b', downres false sb_table c14_witness_block c14_witness_octants = Ok b' /\
              exists a', decode b' = Ok a' /\ changed c14_witness_array a' = 4096) /\
  (exists b', downres true sb_table c14_witness_block c14_witness_octants = Ok b' /\
              exists a', decode b' = Ok a' /\ changed c14_witness_array a' = 512).
Proof. exact downres_blank_refuted. Qed.
Print Assumptions C14_downres_blank_refuted.

(* Block.Downres (repaired setBlank) on a block and eight optional octant blocks of the block's
   size, voxel for voxel: the result decodes to an array whose voxel (x,y,z) is the vote of the
   eight voxels of octant oct_of(x,y,z) above it when that octant is given, and the starting
   array's voxel otherwise (the block's own voxels; zeros when all eight octants are given) — for
   every table the re-encoding may pick.  Block domain and array domain agree. *)
Theorem C14_block_downres : forall tbl b octs b' old,
  tbl_ok tbl -> 0 < b_gx b -> 0 < b_gy b -> 0 < b_gz b -> length octs = 8%nat ->
  Forall (same_size b) octs ->
  decode b = Ok old ->
  downres true tbl b octs = Ok b' ->
  let nx := 8 * b_gx b in let ny := 8 * b_gy b in let nz := 8 * b_gz b in
  exists a, decode b' = Ok a /\ length a = N.to_nat (nx * ny * nz) /\
    forall x y z, x < nx -> y < ny -> z < nz ->
      exists v, nth_N a ((z * ny + y) * nx + x) = Some v /\
                dr_voxel (start_of old octs (nx * ny * nz)) (arrays_of octs 0) nx ny nz x y z v.
Proof. exact downres_fixed_spec. Qed.
Print Assumptions C14_block_downres.

(* The pyramid theorem is about ONE update at a time.  In the code every function of
   datatype/labelmap that runs downresMut.Execute() (PutLabels, storeBlocks, SplitLabels,
   SplitSupervoxel) holds Data.voxelMu over its whole body, so two voxel-level mutations never
   rewrite the same stored lower-resolution block concurrently.  Gen/DownresLocks.v is regenerated
   from the source on every run (harness/cmd/gen/gen_c14.go: Lock(); defer Unlock() as consecutive
   top-level statements before the Execute call and no other mention of voxelMu). *)
Theorem C14_updates_serialised :
  g_downres_execute_locked <> [] /\ forallb (fun b => b) g_downres_execute_locked = true.
Proof. exact updates_serialised. Qed.
Print Assumptions C14_updates_serialised.

(* Non-vacuity: a concrete pyramid (constant levels) satisfies Pyr. *)
Example C14_pyr_inhabited : Pyr (fun _ _ _ _ => 3) 5.
Proof. intros n _ x y z. reflexivity. Qed.

(* ---------------- Round 4: the BLOCK-level update is the voxel-wise update ---------------- *)

(* The arithmetic of getHiresChanges and the receiver choice of downresOctant, REGENERATED from
   datatype/labelmap/downres.go on every run (harness/cmd/gen/gen_c14_arith.go -> Gen/DownresArith.v):
   for every block coordinate in Z^3 the generated parent is the floor-halved coordinate, the
   generated octant slot is the repaired octant index of the model, and the stored parent is the
   receiver exactly when fewer than 8 octants are given. *)
Theorem C14_hires_arith_generated : forall x y z,
  g_hires_parent x y z = (parent_coord x, parent_coord y, parent_coord z) /\
  g_hires_octidx x y z = octant_index true x y z /\
  (g_hires_octidx x y z = 4 * (z mod 2) + 2 * (y mod 2) + x mod 2)%Z /\
  g_downres_stored_below = 8%Z.
Proof.
  exact (fun x y z => conj (g_parent_eq x y z) (conj (g_octidx_eq x y z) (conj (g_octidx_form x y z) g_stored_below_8))).
Qed.
Print Assumptions C14_hires_arith_generated.

(* Mutation.Execute at block level (Model/DownresPyr.v bexec: for each changed block of a scale the
   generated parent and octant slot, eight slots nil where nothing changed, the stored parent block
   as receiver unless all eight are given, Block.Downres, the result stored and handed to the next
   scale) computes at EVERY level n <= max and EVERY voxel of Z^3 exactly the voxel-wise update
   [after] of C14_pyr_execute — for every block half-edge h > 0, every function DR on label arrays
   that satisfies what C14_block_downres proves of Block.Downres (DR_spec), every set chg0 of
   changed level-0 blocks (a map: distinct keys; any coordinates, negative included; any content of
   the block's size), every stored pyramid St of blocks of that size, every max; the block-level
   run never panics (the octant slot is always inside the [8] array). *)
Theorem C14_block_update_is_voxel_update : forall h, (0 < h)%Z ->
  forall DR, DR_spec h DR ->
  forall chg0 St, NoDup (map fst chg0) -> (forall c a, In (c, a) chg0 -> wfa h a) -> (forall n p, wfa h (St n p)) ->
  forall max, exists F, block_levels_are h DR chg0 St F max /\
    forall n, (n <= max)%nat -> forall x y z,
      view (2 * h) (F n) x y z =
      after (2 * h) (touched chg0) (fun k => view (2 * h) (St k)) (view (2 * h) (put_all (St O) chg0)) max n x y z.
Proof. exact block_exec_is_voxel_exec. Qed.
Print Assumptions C14_block_update_is_voxel_update.

(* Hence: if the stored pyramid satisfies Pyr, then after the block-level update every voxel of every
   level n+1 (n < max) is the documented vote over the 2x2x2 voxels beneath it at level n. *)
Theorem C14_block_pyramid : forall h, (0 < h)%Z ->
  forall DR, DR_spec h DR ->
  forall chg0 St, NoDup (map fst chg0) -> (forall c a, In (c, a) chg0 -> wfa h a) -> (forall n p, wfa h (St n p)) ->
  forall max, Pyr (fun k => view (2 * h) (St k)) max ->
  exists F, block_levels_are h DR chg0 St F max /\ Pyr (fun k => view (2 * h) (F k)) max.
Proof. exact block_exec_pyr. Qed.
Print Assumptions C14_block_pyramid.

(* DR_spec is inhabited: the executable array-level Block.Downres of the model (the one the c14
   driver's block-level histories are evaluated with) satisfies it for every block size. *)
Theorem C14_dr_arr_spec : forall h, (0 < h)%Z -> DR_spec h (dr_arr (2 * h)).
Proof. exact dr_arr_ok. Qed.
Print Assumptions C14_dr_arr_spec.

(* Non-vacuity of the hypotheses of the two theorems above: 8^3 blocks, an all-zero stored pyramid
   (which satisfies Pyr), one changed block at a negative odd coordinate. *)
Example C14_block_pyramid_inhabited :
  let St := fun (_ : nat) (_ : coord) => repeat 0 512 in
  let chg0 := [(((-3)%Z, (-1)%Z, 0%Z), repeat 5 512)] in
  DR_spec 4 (dr_arr 8) /\ NoDup (map fst chg0) /\ (forall c a, In (c, a) chg0 -> wfa 4 a) /\
  (forall n p, wfa 4 (St n p)) /\ Pyr (fun k => view 8 (St k)) 3%nat.
Proof. exact block_pyramid_inhabited. Qed.
