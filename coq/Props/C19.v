(* C19 — Copying a data instance preserves its versioned content.  Statements only. *)
From DV Require Import Base.Prelude Model.Dag Model.Resolve Model.Core Model.Copy Model.CopyRun
  Proofs.Resolve Proofs.Core Proofs.Copy.
Local Open Scope N_scope.

(* For every history in the source, every version and key: a raw copy reads like its source.
   rho is the key renaming performed by DataContext.UpdateInstance: injective on source keys,
   landing on keys no existing instance uses (a fresh instance id: C06). *)
Theorem C19_copy_reads_equal :
  forall (rho : N -> option N),
    (forall k1 k2 k', rho k1 = Some k' -> rho k2 = Some k' -> k1 = k2) ->
  forall ops k k' v, let c := run ops core_init in
    rho k = Some k' -> fresh c k' ->
    get (copy_raw rho c) k' v = get c k v.
Proof. intros rho Hinj ops k k' v c. apply copy_reads_equal; [exact Hinj|apply core_inv_run; exact core_inv_init]. Qed.
Print Assumptions C19_copy_reads_equal.

Theorem C19_source_unchanged :
  forall (rho : N -> option N) ops k v, let c := run ops core_init in
    (forall k0, rho k0 <> Some k) ->
    get (copy_raw rho c) k v = get c k v /\ forall V, get (copy_flat rho c V) k v = get c k v.
Proof.
  intros rho ops k v c H. split.
  - apply copy_source_unchanged; [apply core_inv_run; exact core_inv_init|exact H].
  - intro V. apply flatten_source_unchanged; [apply core_inv_run; exact core_inv_init|exact H].
Qed.
Print Assumptions C19_source_unchanged.

(* A flattened copy made at V equals the source as seen from V, and holds entries only at V. *)
Theorem C19_flatten_equals_view :
  forall (rho : N -> option N),
    (forall k1 k2 k', rho k1 = Some k' -> rho k2 = Some k' -> k1 = k2) ->
  forall ops V k k', let c := run ops core_init in
    rho k = Some k' -> fresh c k' -> In V (nodes c) ->
    match get c k V with
    | RFound _ x => get (copy_flat rho c V) k' V = RFound V x
    | RNone => get (copy_flat rho c V) k' V = RNone
    | _ => True
    end.
Proof. intros rho Hinj ops V k k' c. apply flatten_equals_view; [exact Hinj|apply core_inv_run; exact core_inv_init]. Qed.
Print Assumptions C19_flatten_equals_view.

Theorem C19_flatten_only_at_V :
  forall (rho : N -> option N) c V k' v, fresh c k' -> v <> V -> ent_of (copy_flat rho c V) k' v = None.
Proof. exact flatten_only_at_V. Qed.
Print Assumptions C19_flatten_only_at_V.

(* Non-vacuity: the renaming used by the correspondence run is injective; a concrete history. *)
Example rho_std_inj : forall k1 k2 k', rho_std k1 = Some k' -> rho_std k2 = Some k' -> k1 = k2.
Proof.
  unfold rho_std. intros k1 k2 k'. destruct (k1 <? 1000), (k2 <? 1000); intros H1 H2; try discriminate.
  inversion H1; inversion H2; subst. apply (proj1 (N.add_cancel_r k1 k2 1000)). congruence.
Qed.
Example C19_example :
  let c := run [OPut 0 1 100; OCommit 1 true; OChild [1] true; ODel 0 2; OCommit 2 true; OChild [1] true; OPut 0 3 300] core_init in
  get (copy_raw rho_std c) 1000 2 = RNone /\ get (copy_raw rho_std c) 1000 3 = RFound 3 300
  /\ get (copy_flat rho_std c 3) 1000 3 = RFound 3 300 /\ get (copy_flat rho_std c 1) 1000 3 = RFound 1 100.
Proof. vm_compute. repeat split. Qed.

(* ---- version-limited transfer (MigrateInstance with transmit=<uuid list>; datastore/copy_local.go copyVersions) ---- *)
From DV Require Import Model.Transfer Proofs.Transfer.

(* For every datum, every set of stored entries (ids ascending, as the store orders them), every lineage
   (onp), every ascending list of transmitted versions: at every transmitted version the destination answers
   what the source answers. [same_entry] is the repeat test of the repaired code. *)
Theorem C19_transfer_reads_equal :
  forall onp es ts t,
    asc_es 0 es = true -> ascending 0 ts = true -> In t ts ->
    dst_read (transfer same_entry onp es ts) t = src_read onp es t.
Proof. exact transfer_reads_equal. Qed.
Print Assumptions C19_transfer_reads_equal.

(* Nothing is written at a version that was not asked for, and entries off the lineage play no part. *)
Theorem C19_transfer_only_transmitted :
  forall same onp es ts v e, In (v, e) (transfer same onp es ts) -> In v ts.
Proof. exact transfer_only_transmitted. Qed.
Print Assumptions C19_transfer_only_transmitted.

Theorem C19_transfer_ignores_off_path :
  forall same onp es ts, transfer same onp es ts = transfer same onp (on_path onp es) ts.
Proof. exact transfer_ignores_off_path. Qed.
Print Assumptions C19_transfer_ignores_off_path.

(* The repeat test of the code before the repair (value bytes only) is right only when no stored value is
   empty, and wrong otherwise: an empty value followed by its deletion (every ROI span) loses the deletion. *)
Theorem C19_transfer_old_rule_partial :
  forall onp es ts t,
    asc_es 0 es = true -> nonempty_values es = true -> ascending 0 ts = true -> In t ts ->
    dst_read (transfer same_bytes onp es ts) t = src_read onp es t.
Proof. exact transfer_old_reads_equal_partial. Qed.
Print Assumptions C19_transfer_old_rule_partial.

Theorem C19_transfer_old_rule_refuted :
  exists es ts t, asc_es 0 es = true /\ ascending 0 ts = true /\ In t ts /\
    dst_read (transfer same_bytes (fun _ => true) es ts) t <> src_read (fun _ => true) es t.
Proof. exact transfer_old_refuted. Qed.
Print Assumptions C19_transfer_old_rule_refuted.

Example C19_transfer_example :
  let es := [(1%nat, TVal [5]); (2%nat, TVal [5]); (3%nat, TTomb); (4%nat, TVal []); (6%nat, TVal [9])] in
  let onp := fun v => negb (Nat.eqb v 4) in
  asc_es 0 es = true /\ ascending 0 [2; 3; 6]%nat = true /\
  transfer same_entry onp es [2; 3; 6]%nat = [(2%nat, TVal [5]); (3%nat, TTomb); (6%nat, TVal [9])] /\
  transfer same_entry onp es [1; 2; 5]%nat = [(1%nat, TVal [5]); (5%nat, TTomb)].
Proof. vm_compute. repeat split. Qed.
