(* C20 — No request can crash the server; malformed ones are rejected harmlessly.
   Statements only; proofs are in Proofs/Parse.v.  [handle gunzip fx r st] is the handler of one
   ingestion / mutation request (Model/Parse.v): fx = true is the code with the fix: patches
   repo_patches/C20-* (and the C13 patch for addTagDelta) applied, fx = false the code before
   them.  gzip, protobuf and JSON decoders are oracles: [gunzip] is any function that returns an
   error rather than panicking and whose output stays below 512 MiB. *)
From Coq Require Import String.
From DV Require Import Base.Prelude Base.Int Gen.Consts Gen.Throttle Model.Parse Proofs.Parse.
Local Open Scope list_scope.
Local Open Scope N_scope.

(* no_panic — for ALL byte strings (below 512 MiB, where uint32 bit positions cannot wrap) the
   repaired block parser (UnmarshalBinary + Validate, as readStreamedBlock runs them) returns a
   block or an error, never panics ... *)
Theorem C20_no_panic_block : forall data : bytes,
  len data < block_limit -> ingest_block true data <> Panic.
Proof. exact ingest_block_no_panic. Qed.
Print Assumptions C20_no_panic_block.

(* ... the sparse-volume parser never panics (it needed no repair for that) ... *)
Theorem C20_no_panic_sparse : forall body : bytes, read_rles body <> Panic.
Proof. exact read_rles_total. Qed.
Print Assumptions C20_no_panic_sparse.

(* ... and every request — any byte stream of blocks, any sparse volume, any decoded index,
   mapping, element, ROI, key-value or neuron-annotation payload — is answered with success or
   a client error: never by a recovered panic (500) and never by the death of the process. *)
Theorem C20_no_panic : forall (gunzip : bytes -> res bytes),
  (forall c, gunzip c <> Panic) -> (forall c raw, gunzip c = Ok raw -> len raw < block_limit) ->
  forall (r : request) (st : store),
    snd (handle gunzip true r st) = Done \/ snd (handle gunzip true r st) = Rejected.
Proof. exact handle_harmless. Qed.
Print Assumptions C20_no_panic.

(* accepted_is_safe — a block accepted at ingestion can be expanded (MakeLabelVolume,
   WriteLabelVolume, calcNumLabels: the traversal that runs in background goroutines after
   POST blocks is acknowledged) and looked up at every voxel of every sub-block
   (GetPointLabels) without a panic. *)
Theorem C20_accepted_is_safe : forall (data : bytes) (b : block),
  len data < block_limit -> ingest_block true data = Ok b ->
  view_volume b = Ok tt /\ view_calc b = Ok tt /\ forall k o, o < SB3 -> view_point b k o = Ok tt.
Proof. exact ingest_block_safe. Qed.
Print Assumptions C20_accepted_is_safe.

(* an accepted label index can be listed by GET supervoxel-sizes *)
Theorem C20_accepted_index_is_safe : forall i : pidx, view_svsizes true i = Ok tt.
Proof. exact fixed_svsizes_ok. Qed.
Print Assumptions C20_accepted_index_is_safe.

(* an element post with two elements at one position, or an element that repeats a tag, is a
   client error and leaves the store as it was (Elements.validate, C13 fix cb2a6f1) *)
Theorem C20_malformed_elements_rejected : forall gunzip blocks st,
  elements_valid (List.concat (map fst blocks)) = false ->
  handle gunzip true (RElements blocks) st = (st, Rejected).
Proof. intros gunzip blocks st H. cbn [handle]. rewrite (post_elements_invalid blocks H). reflexivity. Qed.
Print Assumptions C20_malformed_elements_rejected.

(* rejected_is_framed — a request whose payload is decoded and checked as a whole (everything
   but the block and index streams) and is then rejected leaves the store exactly as it was ... *)
Theorem C20_rejected_is_framed : forall gunzip (r : request) (st st' : store),
  single_shot r = true -> handle gunzip true r st = (st', Rejected) -> st' = st.
Proof. exact handle_rejected_unchanged. Qed.
Print Assumptions C20_rejected_is_framed.

(* ... and for every request, whatever the answer and in both versions of the code (a block
   stream is stored block by block, an index list index by index), everything stored under
   keys or blocks the request does not name reads back as before. *)
Theorem C20_unnamed_keys_untouched : forall gunzip fx (r : request) (st st' : store) (o : outcome) (k : key),
  handle gunzip fx r st = (st', o) -> ~ In k (named r) -> sget st' k = sget st k.
Proof. exact handle_frame. Qed.
Print Assumptions C20_unnamed_keys_untouched.

(* counts that reach make() before the announced data has arrived are bounded by the bytes
   received (block frame) or by a constant (sparse volume spans) *)
Theorem C20_allocation_bounded : forall s : bytes,
  frame_alloc true s <= len s /\ rles_alloc true s <= 65536.
Proof. intro s. split; [apply frame_alloc_bounded | apply rles_alloc_bounded]. Qed.
Print Assumptions C20_allocation_bounded.

(* no request keeps the server-wide throttle slot: in every handler that calls
   server.ThrottledHTTP the very next statement is `defer server.ThrottledOpDone()` (list
   regenerated from the Go source by harness/cmd/gen/gen_throttle.go; a release that is not
   deferred, or taken under another condition, is listed as false and breaks this theorem) *)
Theorem C20_throttle_slot_released :
  forallb (fun s : String.string * bool => snd s) throttle_sites = true /\ throttle_sites <> [].
Proof. exact (conj throttle_sites_deferred throttle_sites_nonempty). Qed.
Print Assumptions C20_throttle_slot_released.

(* the stride between the label ids of the driver's labelmap mutation histories is a multiple of
   the number of label-index lock shards in the source, so those ids collide in every shard *)
Theorem C20_history_labels_collide_in_every_shard :
  shard_stride mod n_P_numIndexShards = 0 /\ n_P_numIndexShards <> 0.
Proof. exact shard_stride_covers_source. Qed.

(* ---- the code as it stands violates each of them (witnesses reproduced on the real code by
   the driver's corpus) ---- *)

(* inflated numLabels, zero sub-block dimension: UnmarshalBinary panics (HTTP 500) *)
Theorem C20_no_panic_refuted :
  parse_block_impl w_inflated_labels = Panic /\ parse_block_impl w_zero_dim = Panic /\
  snd (handle id_gunzip false (RBlocks (1, 1, 1) (one_frame w_inflated_labels)) []) = Recovered /\
  snd (handle id_gunzip false (RElements w_elements) []) = Recovered.
Proof.
  exact (conj impl_inflated_labels_panics (conj impl_zero_dim_panics (conj impl_blocks_recovered impl_elements_recovered))).
Qed.

(* a sub-block index outside the label table, missing packed values, more labels in a sub-block
   than it has voxels, a block without voxels: accepted, and the
   background traversal panics: the process dies.  A packed value beyond the sub-block's label
   count passes even the repaired UnmarshalBinary and makes a point lookup panic: Validate. *)
Theorem C20_accepted_is_safe_refuted :
  (exists b, parse_block_impl w_index_outside = Ok b /\ view_volume b = Panic) /\
  (exists b, parse_block_impl w_no_values = Ok b /\ view_volume b = Panic) /\
  (exists b, parse_block_impl w_many_labels = Ok b /\ view_calc b = Panic) /\
  (exists b, parse_block_impl w_zero_dim_solid = Ok b /\ view_volume b = Panic /\ view_calc b = Ok tt) /\
  (exists b, parse_block_impl w_packed_value = Ok b /\ parse_block_fixed w_packed_value = Ok b /\
             view_volume b = Ok tt /\ view_point b 1 0 = Panic /\ validate b = Err) /\
  snd (handle id_gunzip false (RBlocks (2, 1, 1) (one_frame w_index_outside)) []) = Crashed /\
  view_svsizes false {| pi_label := 21; pi_blocks := [(0, [])] |} = Panic.
Proof.
  exact (conj impl_index_outside_accepted (conj impl_no_values_accepted (conj impl_many_labels_accepted
        (conj impl_zero_dim_solid_accepted (conj packed_value_needs_validate
        (conj impl_blocks_crash impl_svsizes_panics)))))).
Qed.

(* handleIndex / handleMappings report a decode error and carry on; PutSpans deletes the stored
   ROI before it checks the spans: the request is answered 400 and the stored data is gone or
   partially applied *)
Theorem C20_rejected_is_framed_refuted :
  (let st := [([20], Some [20; 1])] in
   let r := RIndex 20 ({| pi_label := 20; pi_blocks := [] |}, false) in
   snd (handle id_gunzip false r st) = Rejected /\
   sget st [20] = Some [20; 1] /\ sget (fst (handle id_gunzip false r st)) [20] = None) /\
  (let r := RMappings ([(60, [61])], false) in
   snd (handle id_gunzip false r []) = Rejected /\ sget (fst (handle id_gunzip false r [])) [61] = Some [60]) /\
  (let st := [(roi_key, Some [1; 1])] in
   let r := RRoi (Some [(2, 1, 1%Z, 3%Z); (1, 2, 5%Z, 3%Z)]) in
   snd (handle id_gunzip false r st) = Rejected /\
   sget st roi_key = Some [1; 1] /\ sget (fst (handle id_gunzip false r st)) roi_key = None).
Proof.
  exact (conj impl_index_rejected_but_deleted (conj impl_mappings_rejected_but_applied impl_roi_rejected_but_deleted)).
Qed.

Theorem C20_allocation_bounded_refuted :
  frame_alloc false (le_enc 4 0 ++ le_enc 4 0 ++ le_enc 4 0 ++ [255; 255; 255; 255]) = 4294967295 /\
  rles_alloc false ([0; 3; 0; 0; 0; 0; 0; 0] ++ [255; 255; 255; 255]) = 4294967295.
Proof. exact (conj impl_frame_alloc_unbounded impl_rles_alloc_unbounded). Qed.

(* Non-vacuity: the identity is an admissible gzip oracle on short inputs; a well-formed block
   is accepted by both versions and is safe; the repaired code rejects every witness. *)
Example C20_witnesses_rejected_after_repair :
  ingest_block true w_inflated_labels = Err /\ ingest_block true w_zero_dim = Err /\
  ingest_block true w_index_outside = Err /\ ingest_block true w_no_values = Err /\
  ingest_block true w_packed_value = Err /\ ingest_block true w_many_labels = Err /\
  ingest_block true w_zero_dim_solid = Err.
Proof. exact fixed_rejects_witnesses. Qed.
Example C20_valid_block_accepted :
  (* 2x1x1 sub-blocks, labels {5,6}: left sub-block has both (1 bit per voxel), right is solid 6 *)
  let data := hx "020000000100000001000000020000000500000000000000060000000000000002000100000000000100000001000000"%string
              ++ repeat 170 64 in
  exists b, ingest_block true data = Ok b /\ ingest_block false data = Ok b /\
            b_labels b = [5; 6] /\ b_nsb b = [2; 1] /\ view_volume b = Ok tt /\ view_point b 0 511 = Ok tt.
Proof.
  eexists. split; [vm_compute; reflexivity|]. split; [vm_compute; reflexivity|].
  split; [vm_compute; reflexivity|]. split; [vm_compute; reflexivity|]. split; vm_compute; reflexivity.
Qed.
