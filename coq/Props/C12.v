(* C12 — Server-issued identifiers are unique and only move forward.
   Only statements, each closed by [exact] of a lemma proved in Proofs/, and Print Assumptions. *)
From DV Require Import Base.Prelude Model.Persist Model.IDs Model.IDsR Proofs.Persist Proofs.IDs Proofs.IDsR Gen.Consts.
From DV Require Import Gen.IdLocks Model.IdLocks Proofs.IdLocks.
Local Open Scope N_scope.

(* ---- mutation ids ---- *)
(* For a repo created with any start value and any positive stride, over ANY sequence of
   allocations, idle crashes, crashes inside an allocation before or after its stride write
   (including the allocation that reaches the stride boundary), restarts with any configured
   minimum, and restarts that die before or after their own write: the ids returned to callers are
   strictly increasing in issue order (hence never issued twice). *)
Theorem C12_mutid_unique_monotone : forall start stride evs, 0 < stride ->
  increasing (snd (mrun stride (m_fresh start stride) evs)).
Proof. exact mutid_increasing. Qed.
Print Assumptions C12_mutid_unique_monotone.

Theorem C12_increasing_is_unique : forall l, increasing l -> NoDup l.
Proof. exact increasing_NoDup. Qed.
Print Assumptions C12_increasing_is_unique.

(* ---- repo, version and instance ids (the manager of Model.Persist) ---- *)
(* In every state reachable by histories of operations, crashes at any write and (crashing)
   restarts: the id the next newRepoID / newUUID / newInstanceID returns is used by no repo, node or
   instance, neither in memory nor in any blob on disk. *)
Theorem C12_next_ids_fresh : forall C m img, preach C m img ->
  (forall id r, In (id, r) (m_repos m) \/ In (id, r) (i_repos img) ->
     id <> m_rid m /\ ~ In (m_vid m) (repo_versions r) /\ ~ In (m_iid m) (repo_iids r)) /\
  ~ In (m_rid m) (akeys (m_r2u m)).
Proof. exact ids_fresh. Qed.
Print Assumptions C12_next_ids_fresh.

(* The counters only move forward: over a completed operation, and from before an interrupted
   operation to the manager built by the restart that follows the crash (any write, any number of
   crashing restarts in between). *)
Theorem C12_counters_forward_step : forall C m img o, pinv m img = true ->
  let m' := fst (pstep C m o) in
  m_rid m <= m_rid m' /\ m_vid m <= m_vid m' /\ m_iid m <= m_iid m'.
Proof. exact counters_forward_step. Qed.
Print Assumptions C12_counters_forward_step.

Theorem C12_counters_forward_crash : forall C m img o k img2 mr wr, pinv m img = true ->
  rec_chain C (apply_ws img (firstn k (snd (pstep C m o)))) img2 -> recover C img2 = Ok (mr, wr) ->
  m_rid m <= m_rid mr /\ m_vid m <= m_vid mr /\ m_iid m <= m_iid mr.
Proof. exact counters_forward_crash. Qed.
Print Assumptions C12_counters_forward_crash.

(* The load-time correction compares with ">" where the window needs ">=": after a crash between
   putCaches and putNewIDs the cache holds an entry for the very id the counter hands out next.  That
   entry names no node: the start-up drops it (loadVersion0), and the id is issued again — the first
   allocation was never acknowledged and is in no repo, which is why C12_next_ids_fresh holds, and the
   id names exactly one uuid afterwards. *)
Theorem C12_version_id_reissued_after_crash :
  let C := w_conf in
  let '(m, img) := w_state in
  let ws := snd (pstep C m (PNewVersion 1 1 None 12)) in
  match recover C (apply_ws img (firstn 2 ws)) with
  | Ok (mr, _) =>
    aget 2 (m_v2u mr) = None /\ m_vid mr = 2 /\
    (let '(m2, v, _) := new_uuid mr 13 in v = 2 /\ aget 2 (m_v2u m2) = Some 13) /\
    pobserve mr = pobserve m
  | _ => False
  end.
Proof. exact version_id_reissued_after_crash. Qed.
Print Assumptions C12_version_id_reissued_after_crash.

(* ---- labels of a labelmap instance ---- *)
(* Unless an administrator repositions the counter, over ANY sequence of allocations, allocations
   killed after any of their persistence writes, ingests with their background goroutines in any
   interleaving, max-label posts, crashes and restarts: the label ranges handed out are pairwise
   disjoint and strictly increasing in issue order. *)
Theorem C12_label_unique_monotone : forall evs, no_reposition evs = true ->
  ranges_increasing 0 (snd (lrun l_fresh evs)).
Proof. exact label_ranges_increasing. Qed.
Print Assumptions C12_label_unique_monotone.

(* label_fresh, one process lifetime: once every goroutine fired by an acknowledged ingest has run
   (in whatever interleaving of their two critical sections with everything else), an allocation
   returns labels above every label present in the volume at any version. *)
Theorem C12_label_fresh : forall evs v n, forallb live_event evs = true ->
  let s := fst (lrun l_fresh evs) in
  l_pending s = [] ->
  forall b e, snd (lstep s (LAlloc v n)) = Some (b, e) ->
  b <= e /\ e <= max_label /\ forall l, In l (l_present s) -> l < b.
Proof. exact label_fresh_live. Qed.
Print Assumptions C12_label_fresh.

(* With the ingest paths updating the maximum BEFORE they acknowledge (repo_patches/C12-1-fix.diff),
   for every history of acknowledged requests (allocations, ingests, max-label posts) the next
   allocation is above every label present — no proviso. *)
Theorem C12_label_fresh_acked : forall qs v n,
  let s := fst (lrun l_fresh (expand_reqs qs)) in
  forall b e, snd (lstep s (LAlloc v n)) = Some (b, e) ->
  b <= e /\ e <= max_label /\ forall l, In l (l_present s) -> l < b.
Proof. exact label_fresh_acked. Qed.
Print Assumptions C12_label_fresh_acked.

(* Labels are uint64.  An allocation on the max-label path is served exactly when the request is
   non-empty and fits below 2^64; otherwise it is refused and nothing changes — it never wraps
   (the served range satisfies b <= e <= 2^64-1 by the two theorems above). *)
Theorem C12_alloc_served_iff_fits : forall s v n, l_up s = true -> l_next s = 0 ->
  (exists r, snd (lstep s (LAlloc v n)) = Some r) <-> n <> 0 /\ n <= max_label - l_maxrepo s.
Proof. exact alloc_succeeds. Qed.
Print Assumptions C12_alloc_served_iff_fits.

(* label_fresh_refuted, the code as it stood: storeBlocks fired `go d.updateBlockMaxLabel` and
   returned, so an allocation could fall between the acknowledgement and the update. *)
Theorem C12_label_fresh_refuted :
  let s := fst (lrun l_fresh [LIngest 1 [1000]]) in
  l_up s = true /\ In 1000 (l_present s) /\ snd (lstep s (LAlloc 1 1)) = Some (1, 1).
Proof. exact label_fresh_refuted. Qed.
Print Assumptions C12_label_fresh_refuted.

(* ... and the goroutine lost in a crash: the ingested labels are never accounted for. *)
Theorem C12_label_fresh_crash_refuted :
  let s := fst (lrun l_fresh [LAlloc 1 5; LIngest 1 [1000]; LCrash; LRestart]) in
  l_up s = true /\ l_pending s = [] /\ l_lost s = true /\ In 1000 (l_present s) /\
  snd (lstep s (LAlloc 1 1)) = Some (6, 6).
Proof. exact label_fresh_crash_refuted. Qed.
Print Assumptions C12_label_fresh_crash_refuted.

(* label_fresh across restarts is not proved for all histories (_partial).  The one counterexample
   found needed an instance restarted before anything was persisted (its repo-wide maximum in memory
   was the 10-billion default, backed by nothing on disk); instances created by the repaired code
   persist their maximum at creation (repo_patches/C03-2-fix.diff) and do not reach that state. *)
Theorem C12_label_reload_refuted :
  let evs := [LCrash; LRestart; LIngest 1 [10; 20]; LBgRead 0; LBgRead 1; LBgWrite 1; LBgWrite 0; LCrash; LRestart] in
  let s := fst (lrun l_fresh_unrepaired evs) in
  settled s = true /\ In 20 (l_present s) /\ snd (lstep s (LAlloc 1 1)) = Some (11, 11).
Proof. exact label_reload_refuted. Qed.
Print Assumptions C12_label_reload_refuted.

(* ---- Round 4: label freshness across crashes and restarts, the repaired code (Model.IDsR) ---- *)
(* The machine [rstep]: instances persist their maximum at creation (db6bd45, state l_fresh); an
   ingest raises the maxima BEFORE its block is written and before it is acknowledged (f4ecbcf); the
   Lock section of updateBlockMaxLabel never lowers MaxLabel[v] (5404b81).  Persistence assumption,
   built into the machine and the only one: a Put that returned survives process death (crash events
   keep every persisted field), a Put that did not happen leaves the old value.
   For EVERY history of allocations, allocations killed after 0/1/2 of their Puts, ingests whose
   per-block update tasks interleave in any order with everything else, tasks killed inside their Lock
   section after 0/1/2 Puts, max-label updates (complete or killed after 0/1/2 Puts), idle crashes and
   restarts -- without administrative repositioning -- a served allocation returns a range
   b <= e <= 2^64-1 above every label present in the volume at any version (handed-out labels included). *)
Theorem C12_label_fresh_all_histories : forall evs v n, r_no_reposition evs = true ->
  let s := fst (rrun l_fresh evs) in
  forall b e, snd (rstep s (RE (LAlloc v n))) = Some (b, e) ->
  b <= e /\ e <= max_label /\ forall l, In l (l_present s) -> l < b.
Proof. exact label_fresh_all_histories. Qed.
Print Assumptions C12_label_fresh_all_histories.

(* ... and over the same histories no label is handed out twice: the ranges are pairwise disjoint
   and strictly increasing in issue order. *)
Theorem C12_label_unique_all_histories : forall evs, r_no_reposition evs = true ->
  ranges_increasing 0 (snd (rrun l_fresh evs)).
Proof. exact label_unique_all_histories. Qed.
Print Assumptions C12_label_unique_all_histories.

(* Labels of the volume stay labels of the volume over every event (crashes included): the set the
   two theorems above quantify over only grows. *)
Theorem C12_label_present_monotone : forall s e l, In l (l_present s) -> In l (l_present (fst (rstep s e))).
Proof. exact rstep_present_mono. Qed.
Print Assumptions C12_label_present_monotone.

(* Non-vacuity: a history with a kill inside an allocation after its first Put, a kill inside an
   ingest's update after its first Put, an ingest completed, a restart; the allocation that follows is
   served and is above the ingested labels. *)
Example C12_label_fresh_all_histories_concrete :
  let evs := [RE (LAlloc 1 5); RE (LAllocCrash 1 3 1); RE LRestart; RE (LIngest 1 [100; 40]);
              RE (LBgRead 0); RE (LBgRead 1); RE (LBgWrite 1); RWriteCrash 0 1; RE LRestart;
              RE (LIngest 2 [70]); RE (LBgRead 0); RE (LBgWrite 0); RSetMaxCrash 2 500 1; RE LRestart] in
  r_no_reposition evs = true /\
  let s := fst (rrun l_fresh evs) in
  l_present s = [70; 40; 1; 2; 3; 4; 5] /\ snd (rstep s (RE (LAlloc 2 2))) = Some (501, 502) /\
  snd (rrun l_fresh evs) = [(1, 5)].
Proof. vm_compute. repeat split. Qed.

(* What is left (finding C12-2): POST index / POST indices Put the label index FIRST and raise the
   maximum afterwards (labelidx.go putLabelIndexAndMax, putProtoLabelIndices).  A process killed in
   between leaves a label in the volume that no counter accounts for; it is handed out after the restart.
   repo_patches/C12-2-fix.diff moves the update before the Put (then the request is an LSetMax followed by
   the write, and the theorem above applies). *)
Theorem C12_label_fresh_index_kill_refuted :
  let s := fst (rrun l_fresh [RE (LAlloc 1 5)]) in
  let s' := fst (rstep (r_index_killed s 1000) (RE LRestart)) in
  l_up s' = true /\ In 1000 (l_present s') /\ snd (rstep s' (RE (LAlloc 1 1))) = Some (6, 6).
Proof. exact label_fresh_index_kill_refuted. Qed.
Print Assumptions C12_label_fresh_index_kill_refuted.

(* ---- Round 4: the atomicity assumption of the machines, extracted from the source ---- *)
(* Gen/IdLocks.v is rewritten from /repo on every run (harness/cmd/gen/gen_idlocks.go): for
   repoManager.newInstanceID / newRepoID / newVersionID / newUUID, repoT.newMutationID and labelmap
   newLabel / newLabels / updateMaxLabel / updateBlockMaxLabel, every control-flow path as the sequence of
   mutex calls, accesses of the counter fields and persisting Puts.  On EVERY path of EVERY site: each
   write of a counter happens while the site's mutex is held exclusively, each read while it is held; for
   the sites the machines treat as one atomic event (all but the two update functions) reads are under the
   exclusive lock too and all accesses lie in ONE critical section; where the Put is part of the event
   (newInstanceID, newMutationID and all labelmap sites) the Put and the helper's reads are in that
   section as well.  Removing a Lock, narrowing the section, moving an access or the Put out of it, or
   downgrading Lock to RLock changes Gen/IdLocks.v and this statement stops computing to true. *)
Theorem C12_id_counters_rmw_under_mutex : forallb path_ok id_site_paths = true.
Proof. exact id_paths_ok. Qed.
Print Assumptions C12_id_counters_rmw_under_mutex.

(* Check-then-act in one exclusive section (generated table, re-opened by every run): whenever one of the
   counters is written, that counter (for the per-version maximum: it or the repo-wide maximum) has been read
   since the exclusive lock was taken.  A value compared under a read lock that was released before the write
   lock was taken (a stale snapshot) does not count: between the two another request may have advanced the
   counter, and the write would lower it. *)
Theorem C12_counter_writes_rechecked_under_lock : forallb path_rechecked id_site_paths = true.
Proof. exact id_paths_rechecked. Qed.
Print Assumptions C12_counter_writes_rechecked_under_lock.

(* non-vacuity / discrimination: a path that is well locked (path_ok) but writes from a snapshot fails it *)
Example C12_stale_snapshot_fails : path_ok stale_snapshot_path = true /\ path_rechecked stale_snapshot_path = false.
Proof. exact stale_snapshot_fails. Qed.

(* the nine sites are in the table, each with a path that modifies its counter *)
Theorem C12_id_sites_extracted : sites_present id_site_paths = true.
Proof. exact id_sites_present. Qed.
Print Assumptions C12_id_sites_extracted.

(* the sites whose persisting Put is guarded by the mutex.  newRepoID / newVersionID / newUUID are NOT
   among them: they call putNewIDs after releasing idMutex (the machine of Model.Persist has the Put as a
   separate write for that reason; two concurrent allocators may Put their snapshots out of order). *)
Theorem C12_persist_inside_section : persist_guarded id_site_paths = expected_persist_guarded.
Proof. exact id_persist_guarded. Qed.
Print Assumptions C12_persist_inside_section.

(* what the obligation means, for any table: a write of a guarded location at position k of a path is
   made with the mutex held exclusively *)
Theorem C12_under_mutex_sound : forall mu locs strict evs ex sh k l,
  under_mutex mu locs strict evs ex sh = true -> nth_error evs k = Some (IWrite l) -> smem l locs = true ->
  held_at mu evs k ex = true.
Proof. exact under_mutex_write_held. Qed.
Print Assumptions C12_under_mutex_sound.

(* non-vacuity: paths with a narrowed, removed or split critical section, or a Put outside it, fail *)
Example C12_narrowed_lock_fails : narrowed_paths_fail.
Proof. exact narrowed_lock_fails. Qed.

(* Non-vacuity with the constants of the source: stride 100, first id one billion; an allocation
   sequence that crosses the stride boundary, dies exactly there after its write, restarts. *)
Example C12_mutid_concrete :
  0 < n_ids_StrideMutationID /\
  let evs := repeat MAlloc 99 ++ [MAllocCrash true; MRestart 0; MAlloc; MCrash; MRestartCrash 0 false; MRestart 0; MAlloc] in
  let '(s, ids) := mrun n_ids_StrideMutationID (m_fresh n_ids_InitialMutationID n_ids_StrideMutationID) evs in
  length ids = 101%nat /\ nth_error ids 98 = Some 1000000098 /\ nth_error ids 99 = Some 1000000200 /\
  nth_error ids 100 = Some 1000000300 /\ ms_pers s = Some 1000000400.
Proof. vm_compute. repeat split. Qed.
