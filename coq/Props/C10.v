(* C10 — Operations on compressed label blocks equal the voxel-wise reference.
   Only statements, each closed by [exact] of a lemma proved in Proofs/, and Print Assumptions.

   [block_wf b voxs] (TableWF): the block denotes the list [voxs] of 512-voxel sub-blocks — either
   one label and no sub-block data, or a table of two or more slots with [Sem]; duplicate,
   zeroed and unreferenced table slots are allowed, so outputs of earlier operations qualify.
   [decode b] (MakeLabelVolume) is [assemble voxs] (C10_decode_wf), and re-labelling the sub-blocks
   commutes with assembling (C10_relabel_commutes): "voxel for voxel". *)
From DV Require Import Base.Prelude Base.Int Base.BitPack Model.Block Model.BlockViews Model.BlockOps
     Proofs.BitPack Proofs.Block Proofs.BlockOps Proofs.BlockCount Gen.Consts.
Local Open Scope N_scope.

Theorem C10_decode_wf : forall b voxs,
  block_wf b voxs -> decode b = assemble voxs (b_gx b) (b_gy b) (b_gz b).
Proof. exact decode_wf. Qed.
Print Assumptions C10_decode_wf.

Theorem C10_relabel_commutes : forall voxs gx gy gz a (f : N -> N),
  assemble voxs gx gy gz = Ok a -> assemble (map (map f) voxs) gx gy gz = Ok (map f a).
Proof. exact assemble_map. Qed.
Print Assumptions C10_relabel_commutes.

(* every block the encoder returns is well-formed *)
Theorem C10_encoded_blocks_wf : forall tbl vol wx wy wz ox oy oz gx gy gz sbs b,
  gather vol wx wy ox oy oz gx gy gz = Ok sbs -> covers tbl sbs ->
  encode_at tbl vol wx wy wz ox oy oz gx gy gz = Ok b -> block_wf b sbs.
Proof. exact encode_at_wf. Qed.
Print Assumptions C10_encoded_blocks_wf.

(* MergeLabels on ANY well-formed block, target not among the merged labels, whichever merged slot
   the code re-uses when the target is absent (Go map order: [choice]): the result is well-formed
   and denotes the voxel-wise merge. *)
Theorem C10_merge_labels : forall b voxs target merged choice,
  block_wf b voxs -> mem target merged = false ->
  (~ In target (b_labels b) -> merged_indices (b_labels b) merged <> [] ->
   mem choice (merged_indices (b_labels b) merged) = true) ->
  exists b', merge_labels b target merged choice = Ok b' /\
             block_wf b' (map (map (merge_ref target merged)) voxs).
Proof. exact merge_labels_wf. Qed.
Print Assumptions C10_merge_labels.

(* ReplaceLabels (simultaneous mapping) *)
Theorem C10_replace_labels : forall b voxs m,
  block_wf b voxs ->
  block_wf (fst (replace_labels b m))
           (map (map (fun l => match assoc m l with Some v => v | None => l end)) voxs).
Proof. exact replace_labels_wf. Qed.
Print Assumptions C10_replace_labels.

(* ReplaceLabel with the REPAIRED getNumVoxels (repo_patches/C10-1-fix.diff): block = voxel-wise
   replacement, reported size = number of voxels that carried the target label. *)
Theorem C10_replace_label_fixed : forall b voxs target newLabel,
  block_wf b voxs ->
  exists b' size, replace_label true b target newLabel = Ok (b', size) /\
    block_wf b' (map (map (fun l => if l =? target then newLabel else l)) voxs) /\
    size = count_eq (concat voxs) target.
Proof. exact replace_label_wf. Qed.
Print Assumptions C10_replace_label_fixed.

(* the same against the decoded array: the reported size is the number of voxels of MakeLabelVolume's
   output that carried the target label *)
Theorem C10_replace_label_count : forall b voxs a target newLabel,
  block_wf b voxs -> decode b = Ok a ->
  exists b' size, replace_label true b target newLabel = Ok (b', size) /\
    decode b' = Ok (map (fun l => if l =? target then newLabel else l) a) /\
    size = count_eq a target.
Proof. exact replace_label_count. Qed.
Print Assumptions C10_replace_label_count.

(* REFUTED for the code as found: after MergeLabels(2 -> 1), ReplaceLabel(1, 9) reports 3755 of the
   3926 voxels (aliased slots lost); and without any merge a multi-label sub-block lacking the
   label leaves the bit position stale (86 reported, 171 true). *)
Theorem C10_replace_count_refuted :
  merge_labels c10_witness_block 1 [2] 0 = Ok c10_witness_merged /\
  (exists a, decode c10_witness_merged = Ok a /\ count_eq a 1 = 3926) /\
  (exists b', replace_label false c10_witness_merged 1 9 = Ok (b', 3755)) /\
  (exists b', replace_label true c10_witness_merged 1 9 = Ok (b', 3926)).
Proof. exact replace_count_refuted. Qed.
Print Assumptions C10_replace_count_refuted.

Theorem C10_replace_count_refuted_no_alias :
  encode_canon c10_witness2_array 16 16 16 0 0 0 2 2 2 = Ok c10_witness2_block /\
  count_eq c10_witness2_array 1 = 171 /\
  (exists b', replace_label false c10_witness2_block 1 9 = Ok (b', 86)) /\
  (exists b', replace_label true c10_witness2_block 1 9 = Ok (b', 171)).
Proof. exact replace_count_refuted_no_alias. Qed.
Print Assumptions C10_replace_count_refuted_no_alias.

(* PARTIAL: the table-edit theorems above need [block_wf] — every sub-block has at least one table
   slot.  REFUTED outside it (known finding C10-sparse-zero): on a client-made block with
   uninitialised sub-blocks (NumSBLabels = 0, voxels 0 without a slot) ReplaceLabel(0, 7) changes
   nothing and reports 0 although 3584 voxels carry label 0. *)
Theorem C10_sparse_zero_refuted :
  exists a, decode c10_sparse_block = Ok a /\ count_eq a 0 = 3584 /\
  exists b', replace_label true c10_sparse_block 0 7 = Ok (b', 0) /\ decode b' = Ok a.
Proof. exact replace_zero_sparse_refuted. Qed.
Print Assumptions C10_sparse_zero_refuted.

(* Split (= splitSlow), SplitSupervoxel, SplitSupervoxels on ANY block that decodes: the result
   decodes to the array edited under the run lengths (sequentially, by linear index as the Go loop
   does), for every table the re-encoding may pick; sizes are the edit's own counts. *)
Theorem C10_split : forall tbl b bx by_ bz target newLabel rles ob kept split,
  tbl_ok tbl ->
  split_slow tbl b bx by_ bz target newLabel rles = Ok (ob, kept, split) ->
  exists a, decode b = Ok a /\
    ((count_eq a target = 0 /\ ob = None /\ kept = 0 /\ split = 0) \/
     (count_eq a target <> 0 /\ exists a' b',
        ob = Some b' /\
        upd_runs a (map (run_range (8 * b_gx b) (8 * b_gy b)
                                   (bx * Z.of_N (8 * b_gx b)) (by_ * Z.of_N (8 * b_gy b)) (bz * Z.of_N (8 * b_gz b))) rles)
                 (N.eqb target) (fun _ => newLabel) 0 = Ok (a', split) /\
        decode b' = Ok a' /\ kept = count_eq a target - split)).
Proof. exact split_slow_decodes. Qed.
Print Assumptions C10_split.

Theorem C10_split_supervoxel : forall tbl b bx by_ bz sv splitSV remainSV rles b' kept split,
  tbl_ok tbl ->
  split_supervoxel tbl b bx by_ bz sv splitSV remainSV rles = Ok (b', kept, split) ->
  exists a a1, decode b = Ok a /\
    upd_runs a (map (run_range (8 * b_gx b) (8 * b_gy b)
                               (bx * Z.of_N (8 * b_gx b)) (by_ * Z.of_N (8 * b_gy b)) (bz * Z.of_N (8 * b_gz b))) rles)
             (N.eqb sv) (fun _ => splitSV) 0 = Ok (a1, split) /\
    kept = count_eq a1 sv /\
    decode b' = Ok (map (fun l => if l =? sv then remainSV else l) a1).
Proof. exact split_supervoxel_decodes. Qed.
Print Assumptions C10_split_supervoxel.

Theorem C10_split_supervoxels : forall tbl b bx by_ bz rles sv b',
  tbl_ok tbl ->
  split_supervoxels tbl b bx by_ bz rles sv = Ok b' ->
  exists a a1 c, decode b = Ok a /\
    upd_runs a (map (run_range (8 * b_gx b) (8 * b_gy b)
                               (bx * Z.of_N (8 * b_gx b)) (by_ * Z.of_N (8 * b_gy b)) (bz * Z.of_N (8 * b_gz b))) rles)
             (fun l => match assoc2 sv l with Some _ => true | None => false end)
             (fun l => match assoc2 sv l with Some (s, _) => s | None => l end) 0 = Ok (a1, c) /\
    decode b' = Ok (map (fun l => match assoc2 sv l with Some (_, r) => r | None => l end) a1).
Proof. exact split_supervoxels_decodes. Qed.
Print Assumptions C10_split_supervoxels.

(* Non-vacuity: the witness block is a real encoder output, merged by the model of MergeLabels
   (C10_replace_count_refuted, first conjunct); [tbl_ok] is inhabited by the identity. *)
Example C10_tbl_ok_inhabited : tbl_ok (fun a => a).
Proof. intros a l H. exact H. Qed.
