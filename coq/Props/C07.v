(* C07 — The version DAG stays well formed and identifiers stay unique.
   Only statements, each closed by [exact] of a lemma proved in Proofs/Repo.v, Print Assumptions,
   and examples showing the hypotheses are inhabited.

   The machine is Model/Repo.v: [step fx s r] is what the repo manager does with request [r] in
   state [s] (handler argument parsing included); [repaired] selects the code after the six fix:
   commits of repo_patches/C07-*.  [RepoInv] (Model/RepoInv.v): per live repo a single root, every
   parent has a smaller version id (no cycle) and is committed, children mirror parents, no
   repeated link, every named branch is linear and its leaf is its newest node;
   uuidToVersion/versionToUUID are mutually inverse, total on nodes and below the counters, NilUUID
   names nothing, and the head cache points at the newest node of every branch (the default branch
   included).  [oracle_ok s r]: the UUIDs the request lets dvid.NewUUID generate
   are well formed, pairwise distinct and not in use. *)
From DV Require Import Base.Prelude Model.Repo Model.RepoInv Proofs.Repo Model.RepoExt Proofs.RepoExt.
From Coq Require Import String Ascii.
From stdpp Require Import gmap strings.
Local Open Scope string_scope.

Theorem C07_inv_init : RepoInv init.
Proof. exact inv_init. Qed.
Print Assumptions C07_inv_init.

(* every request, whatever its kind and arguments, keeps the invariant *)
Theorem C07_inv_step : forall (s : state) (r : req),
  RepoInv s -> oracle_ok s r -> RepoInv (fst (step repaired s r)).
Proof. exact inv_step. Qed.
Print Assumptions C07_inv_step.

(* hence every request sequence, of any length, accepted or rejected requests alike *)
Theorem C07_inv_run : forall rs : list req,
  oracles_ok repaired init rs -> RepoInv (run repaired init rs).
Proof. exact inv_reachable. Qed.
Print Assumptions C07_inv_run.

(* a request that is not answered with success leaves repos, DAGs, m.repos, repoToUUID, both UUID
   maps, the head cache, the version counter and the repo counter exactly as they were *)
Theorem C07_error_frame : forall (s : state) (r : req),
  RepoInv s -> oracle_ok s r ->
  is_done (snd (step repaired s r)) = false -> frame (fst (step repaired s r)) = frame s.
Proof. exact error_frame. Qed.
Print Assumptions C07_error_frame.

(* the fuel of the ancestry walks (uuid:branch~n addressing) always suffices: no request makes the
   repaired code loop on a state that satisfies the invariant *)
Theorem C07_no_divergence : forall (s : state) (r : req),
  RepoInv s -> snd (step repaired s r) <> Hang.
Proof. exact step_no_hang. Qed.
Print Assumptions C07_no_divergence.

(* readings of RepoInv: no version is its own ancestor ... *)
Theorem C07_acyclic : forall (s : state) i R r,
  RepoInv s -> st_roots s !! i = Some R -> st_repos s !! i = Some r ->
  forall v, ~ tc (parent_of r) v v.
Proof. intros s i R r I HR Hr. destruct (inv_root_eq s i R r I HR Hr) as [_ W]. exact (wf_acyclic r W). Qed.
Print Assumptions C07_acyclic.

(* ... a UUID names one node of one repo ... *)
Theorem C07_uuid_unique : forall s i j R R' r r' v w n m, RepoInv s ->
  st_roots s !! i = Some R -> st_repos s !! i = Some r -> r_nodes r !! v = Some n ->
  st_roots s !! j = Some R' -> st_repos s !! j = Some r' -> r_nodes r' !! w = Some m ->
  n_uuid n = n_uuid m -> i = j /\ v = w.
Proof. exact inv_uuid_unique. Qed.
Print Assumptions C07_uuid_unique.

(* ... and a named branch has one head *)
Theorem C07_one_head : forall s i R r v w n m, RepoInv s ->
  st_roots s !! i = Some R -> st_repos s !! i = Some r ->
  r_nodes r !! v = Some n -> r_nodes r !! w = Some m ->
  n_branch n <> "" -> n_branch m = n_branch n -> branch_leaf r n -> branch_leaf r m -> v = w.
Proof. exact inv_one_head. Qed.
Print Assumptions C07_one_head.

(* newversion never forks a branch: it is refused on a node that already has a child on its branch *)
Theorem C07_second_newversion_refused : forall fx s p a f i r v n c cn,
  find_node s p = Some (i, r, v, n) -> c ∈ n_children n -> r_nodes r !! c = Some cn ->
  n_branch cn = n_branch n -> snd (do_new_version fx s p "" a f) = Fail.
Proof. exact newversion_sister_refused. Qed.
Print Assumptions C07_second_newversion_refused.

(* every branch, the default one included, has one head: the newest node carrying its name, and that
   is what the head cache (uuid:branch) holds; for a named branch it is the one leaf of the chain *)
Theorem C07_head_is_newest : forall s i R r v n, RepoInv s ->
  st_roots s !! i = Some R -> st_repos s !! i = Some r -> r_nodes r !! v = Some n ->
  branch_newest r v n -> st_heads s !! head_key (r_root r) (n_branch n) = Some (n_uuid n).
Proof. intros s i R r v n I. exact (inv_head_newest s I i R r v n). Qed.
Print Assumptions C07_head_is_newest.

Theorem C07_named_leaf_is_newest : forall s i R r v n, RepoInv s ->
  st_roots s !! i = Some R -> st_repos s !! i = Some r -> r_nodes r !! v = Some n ->
  n_branch n <> "" -> branch_leaf r n -> branch_newest r v n.
Proof. intros s i R r v n I HR Hr. destruct (inv_root_eq s i R r I HR Hr) as [_ W]. exact (wf_leaf_newest r W v n). Qed.
Print Assumptions C07_named_leaf_is_newest.

(* the default branch after a merge (merge nodes carry the empty branch name): the node merged from
   gets a second child on branch "", the head of the default branch moves to the merge node (the
   newest node), and root:master, root:master~n are functions of the DAG *)
Example C07_master_after_merge :
  let s0 := run repaired init c02dag in
  let s1 := fst (step repaired s0 (RMerge (U u2) true [U u2; U u3] u5)) in
  snd (step repaired s0 (RNewVersion (U u2) "" u5)) = Fail /\
  snd (step repaired s0 (RMerge (U u2) true [U u2; U u3] u5)) = Done u5 /\
  snd (step repaired s1 (RNewVersion (U u2) "" u6)) = Fail /\
  matching s0 (U (u1 ++ ":master")) = Done u4 /\
  matching s1 (U (u1 ++ ":master")) = Done u5 /\
  matching s1 (U (u1 ++ ":master~0")) = Done u5 /\
  matching s1 (U (u1 ++ ":master~1")) = Done u2.
Proof. exact master_after_merge_example. Qed.

(* ---- the code as found (each theorem switches off one repair only) ---- *)

(* a refused merge leaves its child node in the DAG (and consumes a version id) *)
Theorem C07_merge_orphan_refuted :
  frame_violated only_merge_unvalidated prelude (RMerge (U u2) true [U u2; U u3] u4).
Proof. exact merge_orphan_refuted. Qed.
Print Assumptions C07_merge_orphan_refuted.

(* with the uncommitted parent first, the orphan is a second root *)
Theorem C07_merge_second_root_refuted :
  oracles_ok only_merge_unvalidated init (prelude ++ [RMerge (U u3) true [U u3; U u2] u4])%list /\
  ~ RepoInv (run only_merge_unvalidated init (prelude ++ [RMerge (U u3) true [U u3; U u2] u4])).
Proof. exact merge_second_root_refuted. Qed.
Print Assumptions C07_merge_second_root_refuted.

Theorem C07_repeated_parent_refuted :
  oracles_ok only_merge_undistinct init (prelude ++ [RMerge (U u2) true [U u2; U u2] u4])%list /\
  ~ RepoInv (run only_merge_undistinct init (prelude ++ [RMerge (U u2) true [U u2; U u2] u4])).
Proof. exact repeated_parent_refuted. Qed.
Print Assumptions C07_repeated_parent_refuted.

Theorem C07_duplicate_uuid_refuted :
  oracles_ok only_assign_unchecked init (prelude ++ [RTag (U u2) u1])%list /\
  ~ RepoInv (run only_assign_unchecked init (prelude ++ [RTag (U u2) u1])).
Proof. exact duplicate_uuid_refuted. Qed.
Print Assumptions C07_duplicate_uuid_refuted.

Theorem C07_empty_uuid_refuted :
  oracles_ok only_assign_unchecked init (prelude ++ [RTag (U u2) ""])%list /\
  ~ RepoInv (run only_assign_unchecked init (prelude ++ [RTag (U u2) ""])).
Proof. exact empty_uuid_refuted. Qed.
Print Assumptions C07_empty_uuid_refuted.

Theorem C07_tag_commits_on_error_refuted :
  frame_violated only_tag_unguarded (prelude ++ [RNewVersion (U u2) "" u4])%list (RTag (U u3) u4).
Proof. exact tag_commits_on_error_refuted. Qed.
Print Assumptions C07_tag_commits_on_error_refuted.

(* roots "xa" and "xab": caching the heads of repo "xa" drops the keys of repo "xab" too and files its
   branch "bmaster" under the key of the other repo's master: "xab:master" names a node of repo "xa" *)
Theorem C07_head_key_collision_refuted :
  oracles_ok only_root_unvalidated init collide /\
  matching (run only_root_unvalidated init collide) (U "xab:master") = Done u4 /\
  st_repo_of (run only_root_unvalidated init collide) !! u4 = Some 1%N /\
  st_repo_of (run only_root_unvalidated init collide) !! "xab" = Some 2%N.
Proof. exact head_key_collision_refuted. Qed.
Print Assumptions C07_head_key_collision_refuted.

Theorem C07_resolve_partial_refuted :
  frame_violated only_resolve_unvalidated
    (prelude ++ [RNewData (U u3) true "d1"; RCommit (U u3)])%list
    (RResolve (U u1) [("d1", [(1%nat, u5)]); ("nosuchdata", [])] [U u2; U u3] u6).
Proof. exact resolve_partial_refuted. Qed.
Print Assumptions C07_resolve_partial_refuted.

(* ---- non-vacuity ---- *)

(* a history with two repos, branches, a tag, a merge, a resolve with one conflict, data instances
   and a repo deletion meets the oracle hypothesis at every step; the repaired code answers the
   witnesses above with an error and the same state *)
Definition history : list req :=
  prelude ++
  [RNewData (U u3) true "d1"; RCommit (U u3); RTag (U u2) "v1.0";
   RMerge (U u2) true [U u2; U u3] u4;
   RResolve (U u1) [("d1", [(1%nat, u5)])] [U u2; U u3] u6;
   RNewRepo (Some "000000000000000000000000000000aa") "pw" "000000000000000000000000000000ab";
   RRenameData (U u1) "d1" "d2" ""; RDeleteRepo (U "000000000000000000000000000000aa") "pw"].

Example C07_history_ok :
  oracles_okb repaired init history = true /\
  List.map (fun o => is_done o) (snd (fold_left (fun '(s, acc) r => let (s', o) := step repaired s r in (s', acc ++ [o])%list)
                                             history (init, []))) = List.repeat true (length history) /\
  size (st_u2v (run repaired init history)) = 7%nat.
Proof. vm_compute. auto. Qed.

Example C07_history_inv : RepoInv (run repaired init history).
Proof. apply C07_inv_run, oracles_okb_ok. vm_compute. reflexivity. Qed.

Example C07_repaired_refuses :
  snd (step repaired (run repaired init prelude) (RMerge (U u2) true [U u2; U u3] u4)) = Fail /\
  snd (step repaired (run repaired init prelude) (RMerge (U u2) true [U u2; U u2] u4)) = Fail /\
  snd (step repaired (run repaired init prelude) (RTag (U u2) u1)) = Fail /\
  snd (step repaired (run repaired init prelude) (RTag (U u2) "")) = Fail /\
  snd (step repaired init (RNewRepo (Some "xa") "" u1)) = Fail.
Proof. exact repaired_refuses_witnesses. Qed.

(* ================= Round 4: hide-branch, make-master, POST repo info (Model/RepoExt.v) =================

   [xreq] = a request of Model.Repo (XB r) | XRepoInfo | XHideBranch | XMakeMaster; [xstep fx xf] runs
   them; [x_repaired] = hideBranch refuses a branch that something outside it hangs off
   (repo_patches/C07-8); [x_found] = hideBranch as /repo has it.  makeMaster is modelled as found only.

   The full statements, for every extended request,

     forall s r, RepoInv s -> xoracle_ok s r -> RepoInv (fst (xstep repaired x_repaired s r))
     forall s r, RepoInv s -> xoracle_ok s r -> is_done (snd (xstep repaired x_repaired s r)) = false ->
                 frame (fst (xstep repaired x_repaired s r)) = frame s

   are FALSE for r = XMakeMaster (C07_make_master_name_refuted, C07_make_master_literal_refuted: the
   code as found, no repair modelled).  Proved instead: the _partial versions below (every request
   but make-master, every argument), and for make-master what it can never touch
   (C07_make_master_shape_partial). *)

Theorem C07_ext_inv_step_partial : forall (s : state) (r : xreq),
  RepoInv s -> xoracle_ok s r -> is_make_master r = false ->
  RepoInv (fst (xstep repaired x_repaired s r)).
Proof. exact xinv_step_partial. Qed.
Print Assumptions C07_ext_inv_step_partial.

(* every history, of any length, of old and new requests (accepted or refused) without make-master *)
Theorem C07_ext_inv_run_partial : forall rs : list xreq,
  xoracles_ok repaired x_repaired init rs -> no_make_master rs = true ->
  RepoInv (xrun repaired x_repaired init rs).
Proof. exact xinv_reachable_partial. Qed.
Print Assumptions C07_ext_inv_run_partial.

Theorem C07_ext_error_frame_partial : forall (s : state) (r : xreq),
  RepoInv s -> xoracle_ok s r -> is_make_master r = false ->
  is_done (snd (xstep repaired x_repaired s r)) = false ->
  frame (fst (xstep repaired x_repaired s r)) = frame s.
Proof. exact xerror_frame_partial. Qed.
Print Assumptions C07_ext_error_frame_partial.

(* hide-branch on its own, exact UUID: the invariant survives, whatever the branch name *)
Theorem C07_hide_branch_inv : forall s u b, RepoInv s -> RepoInv (fst (do_hide_branch x_repaired s u b)).
Proof. exact inv_hide_branch. Qed.
Print Assumptions C07_hide_branch_inv.

(* make-master, any state (no hypothesis), any arguments, whatever it answers: m.repos, repoToUUID,
   uuidToVersion, versionToUUID and the three counters are unchanged, and every repo keeps its root,
   its node set and, node by node, UUID, parents, children and commit flag -- only branch names and
   the head cache can change.  (So the single-root, acyclic, mirrored-links, committed-parent and
   unique-identifier clauses of RepoInv cannot be broken by make-master; the branch clauses can.) *)
Theorem C07_make_master_shape_partial : forall s u nm,
  ids_of (fst (xstep repaired x_repaired s (XMakeMaster u nm))) = ids_of s /\
  repos_same_shape s (fst (xstep repaired x_repaired s (XMakeMaster u nm))).
Proof. exact xmake_master_shape. Qed.
Print Assumptions C07_make_master_shape_partial.

(* the code as found: hiding branch a while branch c hangs off it is accepted and leaves a node
   whose parent is no node *)
Theorem C07_hide_branch_orphan_refuted :
  xoracles_ok repaired x_found init hide_orphan_history /\
  is_done (snd (xstep repaired x_found (xrun repaired x_found init (xprelude ++ [XB (RBranch (U u2) "c" "" u4)]))
                      (XHideBranch (U u1) "a"))) = true /\
  ~ RepoInv (xrun repaired x_found init hide_orphan_history).
Proof. exact hide_branch_orphan_refuted. Qed.
Print Assumptions C07_hide_branch_orphan_refuted.

(* make-master (as found = as modelled) renames the old master chain to a name in use: two heads *)
Theorem C07_make_master_name_refuted :
  xoracles_ok repaired x_repaired init make_master_history /\
  is_done (snd (xstep repaired x_repaired (xrun repaired x_repaired init (xprelude ++ [XB (RNewVersion (U u1) "" u4)]))
                      (XMakeMaster (U u2) "b"))) = true /\
  ~ RepoInv (xrun repaired x_repaired init make_master_history).
Proof. exact make_master_name_refuted. Qed.
Print Assumptions C07_make_master_name_refuted.

Theorem C07_make_master_literal_refuted :
  ~ RepoInv (xrun repaired x_repaired init (xprelude ++ [XB (RNewVersion (U u1) "" u4); XMakeMaster (U u2) "master"])).
Proof. exact make_master_literal_refuted. Qed.
Print Assumptions C07_make_master_literal_refuted.

(* non-vacuity: a history with POST info, an accepted hide-branch, the hidden UUID and branch name
   used again; every request answered Done, oracle hypothesis true at every step *)
Example C07_ext_history_ok :
  xoracles_ok repaired x_repaired init xhistory /\ no_make_master xhistory = true /\
  xall_done repaired x_repaired init xhistory = true /\
  size (st_u2v (xrun repaired x_repaired init xhistory)) = 3%nat.
Proof. exact xhistory_ok. Qed.

Example C07_ext_history_inv : RepoInv (xrun repaired x_repaired init xhistory).
Proof. apply C07_ext_inv_run_partial; apply xhistory_ok. Qed.

Example C07_hide_branch_repaired_refuses :
  snd (xstep repaired x_repaired (xrun repaired x_repaired init (xprelude ++ [XB (RBranch (U u2) "c" "" u4)]))
             (XHideBranch (U u1) "a")) = Fail.
Proof. exact hide_branch_repaired_refuses. Qed.

(* make-master with a fresh name and no merge on the chain does what it is meant to *)
Example C07_make_master_accepts :
  let s := xrun repaired x_repaired init (xprelude ++ [XB (RNewVersion (U u1) "" u4); XMakeMaster (U u2) "old"]) in
  matching s (U (u1 ++ ":master")) = Done u2 /\ matching s (U (u1 ++ ":old")) = Done u4 /\
  matching s (U (u1 ++ ":a")) = Fail.
Proof. exact make_master_accepts. Qed.
