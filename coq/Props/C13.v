(* C13 — Annotation indexes are views of one element set, synced with labels.
   Only statements, each closed by [exact] of a lemma proved in Proofs/, and Print Assumptions.
   [Views bs G s] (Model/Annot.v): with G the element set (ground truth, changed only by what the
   requests mean: g_post / g_delete / g_move / g_blocks) and s the stores written by the modelled
   DVID code, for every block b, tag t, body l <> 0 and labelsz index type i
     block store(b)  is a permutation of  the elements of G lying in block b,
     tag index(t)    is a permutation of  the (relationship-free) elements of G carrying t,
     label index(l)  is a permutation of  the (relationship-free) elements of G on a voxel of body l,
     count(i, l)     =  number of elements of G on body l of type i,
   and positions in G are pairwise distinct.  [fixed] is the code with the repairs of
   repo_patches/C13-*-fix.diff applied, [impl] the code as found.  [guard] asks only: for a POST an
   iteration order of its blocks; for DELETE / move that the element's referrers are in its block or
   referenced back by it; for POST blocks distinct block keys; for label events that the payload
   describes the volume change. *)
From DV Require Import Base.Prelude Model.Annot Gen.Consts Proofs.AnnotBase Proofs.Annot.
From Coq Require Import Permutation.
Local Open Scope Z_scope.

Theorem C13_views_init : forall bs bd, Views bs [] (init bd).
Proof. exact views_init. Qed.
Print Assumptions C13_views_init.

(* every edit (POST elements, DELETE element, move, POST blocks + reload) and every label event
   (merge, cleave, split, block mutate, block ingest), at any positions — negative, on block
   borders — keeps the views, does not panic, and leaves the label volume to the event *)
Theorem C13_views_step : forall bs G s o,
  Views bs G s -> guard bs G (body s) o ->
  Views bs (gstep bs o G) (step_or_stay fixed bs o s)
  /\ body (step_or_stay fixed bs o s) = body_after bs o (body s)
  /\ step fixed bs o s <> Panic.
Proof. exact views_step. Qed.
Print Assumptions C13_views_step.

(* all histories, by induction, once each event has been handled (syncs drained) *)
Theorem C13_views_history : forall bs h G s,
  Views bs G s -> valid bs G (body s) h -> Views bs (grun bs h G) (run fixed bs h s).
Proof. exact views_history. Qed.
Print Assumptions C13_views_history.

Theorem C13_history_no_panic : forall bs h1 G s o h2,
  Views bs G s -> valid bs G (body s) (h1 ++ o :: h2) -> step fixed bs o (run fixed bs h1 s) <> Panic.
Proof. exact history_no_panic. Qed.
Print Assumptions C13_history_no_panic.

(* after DELETE of the element at p nothing stored references p any more *)
Theorem C13_delete_removes_references : forall bs G s p,
  Views bs G s -> guard bs G (body s) (ODelete p) -> in_posb p G = true ->
  forall b x, In x (bget (blk (step_or_stay fixed bs (ODelete p) s)) b) -> refs p x = false.
Proof. exact delete_removes_references. Qed.
Print Assumptions C13_delete_removes_references.

(* after an accepted move f -> t every partner that referenced f is stored referencing t, not f *)
Theorem C13_move_updates_references : forall bs G s f t,
  Views bs G s -> guard bs G (body s) (OMove f t) -> move_check f t G G = None ->
  forall q, In q G -> e_pos q <> f -> refs f q = true ->
  exists q', In q' (bget (blk (step_or_stay fixed bs (OMove f t) s)) (blockOf bs (e_pos q)))
             /\ e_pos q' = e_pos q /\ refs t q' = true /\ refs f q' = false.
Proof. exact move_updates_references. Qed.
Print Assumptions C13_move_updates_references.

(* ill-formed requests are rejected and change nothing (C13-7-fix, C13-8-fix): two elements at one
   position, a repeated tag, a block element outside its block; a move
   of a missing element, onto an occupied position, or of an element related to its own or to the
   target position.  [C13_views_step] therefore needs no well-formedness hypothesis about them. *)
Theorem C13_rejected_is_noop : forall bs o s, step fixed bs o s = Err -> step_or_stay fixed bs o s = s.
Proof. exact rejected_is_noop. Qed.
Print Assumptions C13_rejected_is_noop.
Theorem C13_ill_formed_post_rejected : forall bs ord es s, elems_ok es = false -> step fixed bs (OPost ord es) s = Err.
Proof. exact ill_formed_post_rejected. Qed.
Print Assumptions C13_ill_formed_post_rejected.
Theorem C13_ill_formed_blocks_rejected : forall bs bl s, blocks_ok bs bl = false -> step fixed bs (OReload bl) s = Err.
Proof. exact ill_formed_blocks_rejected. Qed.
Print Assumptions C13_ill_formed_blocks_rejected.
Theorem C13_bad_move_rejected : forall bs G s f t, Views bs G s ->
  (exists r, move_check f t G G = Some r /\ r <> Ok tt) -> step fixed bs (OMove f t) s = Err.
Proof. exact bad_move_rejected. Qed.
Print Assumptions C13_bad_move_rejected.

(* dvid's Chunk / PointInChunk arithmetic (truncating division with its negative-coordinate
   correction) is floor division and floor modulo, in every dimension, for every coordinate *)
Theorem C13_block_is_floor : forall bs p, bs_ok bs ->
  blockOf bs p = (pX p / pX bs, pY p / pY bs, pZ p / pZ bs)
  /\ inChunk bs p = (pX p mod pX bs, pY p mod pY bs, pZ p mod pZ bs).
Proof. exact block_is_floor. Qed.
Print Assumptions C13_block_is_floor.

(* the code as found violates the property on well-formed histories: a panic (nil-map write in
   addTagDelta), and a move inside one body after which the body's list still shows the old position *)
Theorem C13_unrepaired_refuted :
  (exists h o, valid bs16 [] slabs (h ++ [o]) /\ step impl bs16 o (run impl bs16 h (init slabs)) = Panic)
  /\ (exists h, valid bs16 [] slabs h /\ ~ Views bs16 (grun bs16 h []) (run impl bs16 h (init slabs))
               /\ Views bs16 (grun bs16 h []) (run fixed bs16 h (init slabs))).
Proof. exact unrepaired_refuted. Qed.
Print Assumptions C13_unrepaired_refuted.

(* overwriting an element with another kind: the per-kind counts of labelsz are not adjusted *)
Theorem C13_unrepaired_kind_refuted :
  valid bs16 [] slabs h_kind /\ ~ Views bs16 (grun bs16 h_kind []) (run impl bs16 h_kind (init slabs)).
Proof. exact (conj valid_kind impl_kind_breaks). Qed.
Print Assumptions C13_unrepaired_kind_refuted.

(* labelsz reload counts notes into AllSyn *)
Theorem C13_unrepaired_allsyn_refuted :
  valid bs16 [] slabs h_allsyn /\ ~ Views bs16 (grun bs16 h_allsyn []) (run impl bs16 h_allsyn (init slabs)).
Proof. exact (conj valid_allsyn impl_allsyn_breaks). Qed.
Print Assumptions C13_unrepaired_allsyn_refuted.

(* Non-vacuity: the hypotheses are inhabited by reachable, non-trivial states. *)
Example C13_valid_histories_exist :
  valid bs16 [] slabs (h_tag ++ [o_tag]) /\ valid bs16 [] slabs h_move /\ valid bs16 [] slabs h_kind /\ valid bs16 [] slabs h_allsyn.
Proof. exact (conj valid_tag (conj valid_move (conj valid_kind valid_allsyn))). Qed.
Example C13_concrete :
  let s := run fixed bs16 (h_tag ++ [o_tag; OMove (10,1,1) (-3,15,16); LMerge 2 [1%N]]) (init slabs) in
  map fst (blk s) <> [] /\ nget (tgs s) 7%N = [eN (-3,15,16) 4 [7%N]] /\ blockOf bs16 (-3,15,16) = (-1,0,1)
  /\ cget (cnt s) (n_sz_Note, 2%N) = 2.
Proof. vm_compute. repeat split; try reflexivity; discriminate. Qed.
