(* C05 — Range and listing queries agree with point reads.
   Only statements, each closed by [exact] of a lemma proved in Proofs/, and Print Assumptions.

   Every theorem is parametric in the version resolver [best : list bytes -> res (option bytes)]
   (VersionedCtx.VersionedKeyValue / GetBestKeyVersion at the context's version): the range scan and
   the point read hand it the same stored keys of one TKey, so whatever it decides — nearest
   ancestor, tombstone, conflict — they decide alike.  The range theorems need no law of the resolver;
   reading the chosen value back through the store (BadgerDB.Get) needs [best_in]: the resolver
   returns one of the keys it was given. *)
From DV Require Import Base.Prelude Base.Int Base.Lex Base.KeyShape Gen.Consts Gen.KeyClasses
     Model.Keys Model.KV Model.KVRange Proofs.Keys Proofs.KV Proofs.KVRange.
From Coq Require Import Sorting.Sorted.
(* the refinement tying this byte-level layer to the abstract core of C01 / C19 is built with C05 *)
From DV Require Props.Refine.
Local Open Scope N_scope.

(* ---- 1. GetRange / ProcessRange over [lo, hi]  =  the point verdicts of the TKeys present in the
        interval, in ascending order, each once.  [collect] fails as a whole on the first conflict
        (the guard "no key of the interval is in unresolved conflict" is the Ok case). ---- *)
Theorem C05_range_eq_points : forall best cx,
  id_ok (cx_instance cx) ->
  forall lo hi s,
  store_ok cx s -> bound_ok cx s lo -> bound_ok cx s hi -> prefix_free_pair lo hi -> lex_le lo hi ->
  get_range best cx lo hi s = collect (map (fun tk => (tk, point_kv best cx tk s)) (range_tkeys cx lo hi s)).
Proof. exact get_range_points. Qed.
Print Assumptions C05_range_eq_points.

(* the TKeys reported: inside the interval and stored ... *)
Theorem C05_range_tkeys_sound : forall cx, id_ok (cx_instance cx) -> forall lo hi s tk,
  store_ok cx s -> bound_ok cx s lo -> bound_ok cx s hi -> In tk (range_tkeys cx lo hi s) ->
  lex_le lo tk /\ lex_le tk hi /\ entries_kv cx tk s <> [].
Proof. exact range_tkeys_sound. Qed.
Print Assumptions C05_range_tkeys_sound.

(* ... every stored TKey of the interval ... *)
Theorem C05_range_tkeys_complete : forall cx, id_ok (cx_instance cx) -> forall lo hi s e,
  store_ok cx s -> bound_ok cx s lo -> bound_ok cx s hi ->
  In e s -> of_instance (cx_instance cx) (fst e) = true -> lex_le lo (lab e) -> lex_le (lab e) hi ->
  In (lab e) (range_tkeys cx lo hi s).
Proof. exact range_tkeys_complete. Qed.
Print Assumptions C05_range_tkeys_complete.

(* ... strictly ascending, hence each once *)
Theorem C05_range_tkeys_ascending : forall cx lo hi s,
  id_ok (cx_instance cx) -> store_ok cx s -> StronglySorted lex_lt (range_tkeys cx lo hi s).
Proof. exact range_tkeys_ascending. Qed.
Print Assumptions C05_range_tkeys_ascending.

(* the stream itself: versionedRange sends the resolver's verdict on each run of equal TKey, and each
   run is exactly the entry list a point read of that TKey looks at *)
Theorem C05_range_stream : forall best cx, id_ok (cx_instance cx) -> forall lo hi ko s,
  store_ok cx s -> bound_ok cx s lo -> bound_ok cx s hi -> prefix_free_pair lo hi -> lex_le lo hi ->
  versioned_range best cx lo hi ko s = flat_map (send best) (chunk (in_scan cx lo hi (strip ko s))).
Proof. exact versioned_range_chunks. Qed.
Print Assumptions C05_range_stream.

Theorem C05_run_is_point_read : forall cx, id_ok (cx_instance cx) -> forall lo hi s g,
  store_ok cx s -> bound_ok cx s lo -> bound_ok cx s hi -> In g (chunk (in_scan cx lo hi s)) ->
  exists tk, same_lab tk g /\ g <> [] /\ lex_le lo tk /\ lex_le tk hi /\ g = entries_kv cx tk s.
Proof. exact chunk_is_point_read. Qed.
Print Assumptions C05_run_is_point_read.

(* BadgerDB.Get (with repo_patches/C05-1-fix) is that verdict read through the store: the value the
   range returns for the TKey, nothing when the range skips it; an unresolved conflict, which fails
   the range, reads as nothing *)
Theorem C05_point_get_is_verdict : forall best cx,
  (forall ks k, best ks = Ok (Some k) -> In k ks) -> forall tk s, sorted s ->
  point_get best cx tk s =
  match point_kv best cx tk s with
  | Ok (Some (_, v)) => Some v
  | _ => None
  end.
Proof. exact point_get_verdict. Qed.
Print Assumptions C05_point_get_is_verdict.

(* the code before the repair returned badger's nil for an empty stored value: a key posted with an
   empty body was listed by the keys-only scan and existed, but its point read found nothing *)
Theorem C05_empty_value_refuted :
  keys_in_range wit_best wit_cx (min_tkey 177) (max_tkey 177) wit_empty_store = Ok [kv_tkey [101]] /\
  point_exists wit_best wit_cx (kv_tkey [101]) wit_empty_store = true /\
  point_get_nil wit_best wit_cx (kv_tkey [101]) wit_empty_store = None /\
  point_get wit_best wit_cx (kv_tkey [101]) wit_empty_store = Some [].
Proof. exact empty_value_witness. Qed.

(* ---- 2. keys-only variant: the same scan on the same keys ---- *)
Theorem C05_keys_only : forall best cx lo hi s,
  keys_in_range best cx lo hi s = res_bind (get_range best cx lo hi (strip true s)) (fun l => Ok (map fst l)).
Proof. exact keys_in_range_as_get_range. Qed.
Print Assumptions C05_keys_only.

Theorem C05_keys_only_same_keys : forall cx tk s,
  map fst (entries_kv cx tk (strip true s)) = map fst (entries_kv cx tk s).
Proof. exact entries_kv_strip. Qed.
Print Assumptions C05_keys_only_same_keys.

(* ---- 3. DeleteRange ---- *)
(* it deletes, at the context's version, exactly the TKeys the keys-only scan reports *)
Theorem C05_delete_range_keys : forall best cx lo hi s tks,
  keys_in_range best cx lo hi s = Ok tks ->
  delete_range best cx lo hi s = Ok (fold_left (fun acc tk => delete cx tk acc) tks s).
Proof. exact delete_range_keys. Qed.
Print Assumptions C05_delete_range_keys.

(* and writes nothing but entries of (instance, context version): ancestors', siblings' and other
   instances' entries are untouched, whatever the resolver and the interval *)
Theorem C05_delete_range_other_versions : forall best cx lo hi s s',
  id_ok (cx_version cx) -> delete_range best cx lo hi s = Ok s' ->
  filter (fun e => negb (own_version cx (fst e))) s' = filter (fun e => negb (own_version cx (fst e))) s.
Proof. exact delete_range_other_versions. Qed.
Print Assumptions C05_delete_range_other_versions.

(* ---- 4. keyvalue key strings without byte 0 sort like their TKeys ---- *)
Theorem C05_string_order : forall a b, ~ In 0 a -> ~ In 0 b ->
  lex_compare (kv_tkey a) (kv_tkey b) = lex_compare a b.
Proof. exact kv_string_order. Qed.
Print Assumptions C05_string_order.

(* ---- non-vacuity: a two-key, two-version store satisfies every hypothesis; the range over the
   whole keyvalue class returns both keys in order ---- *)
Definition ex_cx : vctx := {| cx_instance := 5; cx_version := 2; cx_client := 0 |}.
Definition ex_store : store :=
  [(construct_data_key 5 1 0 (kv_tkey [97]), [1]);
   (construct_data_key 5 2 0 (kv_tkey [97]), [2]);
   (construct_data_key 5 1 0 (kv_tkey [98]), [3])].
(* a toy resolver: the entry with the largest version *)
Definition ex_best (ks : list bytes) : res (option bytes) := Ok (last (map Some ks) None).

Example C05_concrete :
  get_range ex_best ex_cx (min_tkey 177) (max_tkey 177) ex_store = Ok [(kv_tkey [97], [2]); (kv_tkey [98], [3])]
  /\ keys_in_range ex_best ex_cx (kv_tkey [98]) (kv_tkey [98]) ex_store = Ok [kv_tkey [98]]
  /\ point_get ex_best ex_cx (kv_tkey [97]) ex_store = Some [2]
  /\ range_tkeys ex_cx (min_tkey 177) (max_tkey 177) ex_store = [kv_tkey [97]; kv_tkey [98]].
Proof. vm_compute. repeat split. Qed.

Example C05_hypotheses_inhabited :
  store_ok ex_cx ex_store /\ bound_ok ex_cx ex_store (min_tkey 177) /\ bound_ok ex_cx ex_store (max_tkey 177)
  /\ prefix_free_pair (min_tkey 177) (max_tkey 177) /\ lex_le (min_tkey 177) (max_tkey 177)
  /\ (forall ks k, ex_best ks = Ok (Some k) -> In k ks).
Proof.
  assert (E : forall e, In e ex_store ->
              (e = (data_key 5 (kv_tkey [97]) 1 0 n_MarkData, [1]) \/ e = (data_key 5 (kv_tkey [97]) 2 0 n_MarkData, [2])
               \/ e = (data_key 5 (kv_tkey [98]) 1 0 n_MarkData, [3]))).
  { intros e [<-|[<-|[<-|[]]]]; auto. }
  assert (L : forall e, In e ex_store -> lab e = kv_tkey [97] \/ lab e = kv_tkey [98]).
  { intros e He. destruct (E e He) as [->|[-> | ->]]; unfold lab; cbn [fst]; rewrite tkey_from_data_key; auto. }
  assert (PF : forall a b, (a = kv_tkey [97] \/ a = kv_tkey [98]) -> (b = kv_tkey [97] \/ b = kv_tkey [98]) ->
               prefix_free_pair a b).
  { intros a b [-> | ->] [-> | ->]; apply prefix_free_pairb_ok; vm_compute; reflexivity. }
  repeat split.
  - repeat constructor; vm_compute; reflexivity.
  - intros e He _. destruct (E e He) as [->|[-> | ->]]; eexists _, _, _, _; cbn [fst];
      (split; [reflexivity|]); repeat split; unfold id_ok, byte_ok; vm_compute; reflexivity.
  - intros a b Ha Hb _ _. apply PF; auto.
  - intros e He _. destruct (L e He) as [->| ->]; apply prefix_free_pairb_ok; vm_compute; reflexivity.
  - intros e He _. destruct (L e He) as [->| ->]; apply prefix_free_pairb_ok; vm_compute; reflexivity.
  - apply prefix_free_pairb_ok. vm_compute. reflexivity.
  - apply lex_leb_le. vm_compute. reflexivity.
  - intros ks k. unfold ex_best. intro H. apply Ok_inj in H.
    induction ks as [|a ks IH]; [discriminate|]. destruct ks as [|b ks'].
    + simpl in H. inversion H. now left.
    + right. apply IH. exact H.
Qed.
